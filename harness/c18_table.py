"""C18 - the tag/option table of phonopy's command-line front end (requirement side).

Hand-written from doc/setting-tags.md, doc/command-options.md and the help
strings of phonopy_argparse.py: for every configuration-file tag

  * its aliases, the equivalent command-line option(s) and the commands that
    have the option,
  * concrete example values (file text, argv) with the *parameters* they denote
    (`sets`: [(param key, python value)]),

and, for every parameter, the effect on the settings object (`RULES`:
conjunction of conditions on parameters -> guarded writes of settings
attributes, in the order in which the stages apply them).

The table is emitted as TLA+ constants (spec/CLITable.tla, committed; `emit()`
regenerates it and the check fails as a machinery error if the committed file
differs) and is compared with the documentation and with argparse by
`drift()`.  Nothing in this file imports phonopy.
"""
from __future__ import annotations

import os
import re

import numpy as np

CMDS = ("phonopy", "load")
BOTH = CMDS

# ----------------------------------------------------------------------------
# canonical tokens of python values (the abstract value domain of the spec)
# ----------------------------------------------------------------------------
LOWER_ATTRS = {"fc_calculator"}  # consumers lower-case these (phonopy_script._get_fc_calculator_params)


def tok(v):
    if v is None:
        return "None"
    if isinstance(v, (bool, np.bool_)):
        return "True" if v else "False"
    if isinstance(v, (int, float, np.integer, np.floating)):
        return repr(float(v))
    if isinstance(v, str):
        return "s:" + v
    if isinstance(v, np.ndarray):
        return tok(v.tolist())
    if isinstance(v, (list, tuple)):
        return "[" + ",".join(tok(x) for x in v) + "]"
    if isinstance(v, dict):
        return "{" + ",".join(str(k) + ":" + tok(v[k]) for k in sorted(v)) + "}"
    return "?" + type(v).__name__ + ":" + repr(v)


def attr_tok(attr, v):
    if attr in LOWER_ATTRS and isinstance(v, str):
        v = v.lower()
    return tok(v)


# ----------------------------------------------------------------------------
# defaults of the settings object (documented defaults; Settings._default and
# PhonopySettings._default are the implementation's copy - compared in drift())
# ----------------------------------------------------------------------------
DEFAULTS = {
    # basic
    "band_indices": None, "band_paths": None, "band_points": None, "cell_filename": None,
    "chemical_symbols": None, "classical": False, "cutoff_frequency": None,
    "displacement_distance": None, "displacement_distance_max": None, "dm_decimals": None,
    "calculator": None, "create_displacements": False, "fc_calculator": None,
    "fc_calculator_options": None, "fc_decimals": None, "fc_symmetry": False,
    "frequency_pitch": None, "frequency_conversion_factor": None, "frequency_scale_factor": None,
    "group_velocity_delta_q": None, "hdf5_compression": "gzip", "is_band_const_interval": False,
    "is_diagonal_displacement": True, "is_eigenvectors": False, "is_mesh_symmetry": True,
    "is_nac": False, "is_plusminus_displacement": "auto", "is_symmetry": True,
    "is_tetrahedron_method": True, "is_time_reversal_symmetry": True,
    "is_trigonal_displacement": False, "magnetic_moments": None, "masses": None,
    "mesh_numbers": None, "mlp_params": None, "nac_method": None, "nac_q_direction": None,
    "num_frequency_points": None, "primitive_matrix": None, "qpoints": None,
    "random_displacements": None, "random_seed": None, "read_qpoints": False,
    "save_params": False, "sigma": None, "supercell_matrix": None, "symmetry_tolerance": None,
    "max_temperature": 1000, "min_temperature": 0, "temperature_step": 10, "use_pypolymlp": False,
    # phonopy
    "anime_band_index": None, "anime_amplitude": None, "anime_division": None, "anime_qpoint": None,
    "anime_shift": None, "anime_type": "v_sim", "band_format": "yaml", "band_labels": None,
    "create_force_sets": None, "create_force_sets_zero": None, "create_force_constants": None,
    "cutoff_radius": None, "dos": None, "fc_spg_symmetry": False, "fits_Debye_model": False,
    "max_frequency": None, "min_frequency": None, "irreps_q_point": None, "irreps_tolerance": None,
    "is_band_connection": False, "is_dos_mode": False, "is_full_fc": False,
    "is_group_velocity": False, "is_gamma_center": False, "is_hdf5": False, "is_legacy_plot": False,
    "is_little_cogroup": False, "is_moment": False, "is_thermal_displacements": False,
    "is_thermal_displacement_matrices": False, "is_thermal_distances": False,
    "is_thermal_properties": False, "is_projected_thermal_properties": False,
    "include_force_constants": False, "include_force_sets": False, "include_nac_params": True,
    "include_displacements": False, "lapack_solver": False, "mesh_shift": None, "mesh_format": "yaml",
    "modulation": None, "moment_order": None, "pdos_indices": None, "pretend_real": False,
    "projection_direction": None, "qpoints_format": "yaml", "random_displacement_temperature": None,
    "read_force_constants": False, "readfc_format": "text", "run_mode": None, "show_irreps": False,
    "sscha_iterations": None, "store_dense_svecs": True, "thermal_atom_pairs": None,
    "thermal_displacement_matrix_temperatue": None, "write_dynamical_matrices": False,
    "write_mesh": True, "write_force_constants": False, "writefc_format": "text",
    "xyz_projection": False,
}
# what the two commands change (phonopy/scripts/phonopy.py, phonopy_load.py; doc/phonopy-load.md)
CMD_DEFAULTS = {
    "phonopy": {},
    "load": {"fc_symmetry": True, "is_nac": True, "load_phonopy_yaml": True},
}
ATTRS = sorted(set(DEFAULTS) | {"load_phonopy_yaml"})


def defaults_of(cmd):
    d = dict(DEFAULTS)
    d.update(CMD_DEFAULTS[cmd])
    return d


# ----------------------------------------------------------------------------
# rows
# ----------------------------------------------------------------------------
ROWS = []
_BY_KEY = {}


def ex(id, text, sets, argv=None, alts=(), cmds=BOTH, zero=False, override=True, pair=True):
    """One example value: file text `KEY = text`, the equivalent argv (None = no
    option can express it), alternative argv spellings, commands whose parser
    has the option."""
    return dict(id=id, text=text, sets=list(sets), argv=argv, alts=[list(a) for a in alts],
                cmds=tuple(cmds) if argv is not None else (), zero=zero, override=override, pair=pair)


def row(key, examples, aliases=(), doc=True, oo=0, group=None, opts=(), dests=()):
    r = dict(key=key, aliases=tuple(aliases), examples=examples, doc=doc, oo=oo, group=group,
             opts=tuple(opts), dests=tuple(dests))
    ROWS.append(r)
    _BY_KEY[key] = r
    return r


def flag(key, pkey, opt=None, pol=True, doc=True, cmds=BOTH, cmds_false=None, opt_false=None,
         dest=None, group=None, oo=0, extra_true=(), extra_false=(), aliases=(), alts=()):
    """Boolean tag; `opt` is the flag equivalent to `.TRUE.` (pol=True) or `.FALSE.` (pol=False)."""
    eT = ex("T", ".TRUE.", [(pkey, True)] + list(extra_true),
            argv=[opt] if (opt and pol) else None, cmds=cmds, alts=[[a] for a in alts] if pol else ())
    if opt_false:
        eF = ex("F", ".FALSE.", [(pkey, False)] + list(extra_false), argv=[opt_false],
                cmds=cmds_false or cmds)
    else:
        eF = ex("F", ".FALSE.", [(pkey, False)] + list(extra_false),
                argv=[opt] if (opt and not pol) else None, cmds=cmds,
                alts=[[a] for a in alts] if not pol else ())
    opts = [o for o in (opt, opt_false) if o] + list(alts)
    return row(key, [eT, eF], doc=doc, group=group, oo=oo, opts=opts, dests=[dest] if dest else (),
               aliases=aliases)


def val(key, opt, examples, doc=True, dest=None, aliases=(), group=None, oo=0, optalts=()):
    return row(key, examples, doc=doc, group=group, oo=oo, opts=([opt] if opt else []) + list(optalts),
               dests=[dest] if dest else (), aliases=aliases)


third = 1.0 / 3
F = np.array([[0, 0.5, 0.5], [0.5, 0, 0.5], [0.5, 0.5, 0]])

# ---- ConfParser (basic tags) -----------------------------------------------
val("band_indices", "--band-indices", [
    ex("a", "1 2, 3", [("band_indices", [[0, 1], [2]])], argv=["--band-indices", "1 2, 3"],
       alts=[["--bi", "1", "2,", "3"]])], doc=False, dest="band_indices", optalts=["--bi"])
val("cell_filename", "--cell", [
    ex("a", "POSCAR-unitcell", [("cell_filename", "POSCAR-unitcell")], argv=["--cell", "POSCAR-unitcell"],
       alts=[["-c", "POSCAR-unitcell"]], cmds=("phonopy",))], dest="cell_filename", optalts=["-c"])
flag("create_displacements", "create_displacements", "-d", dest="is_displacement", alts=["--displacement"])
val("dim", "--dim", [
    ex("d3", "2 2 3", [("supercell_matrix", np.diag([2, 2, 3]))], argv=["--dim", "2", "2", "3"],
       alts=[["--dim", "2 2 3"]], cmds=("phonopy",)),
    ex("d9", "0 1 1 1 0 1 1 1 0", [("supercell_matrix", [[0, 1, 1], [1, 0, 1], [1, 1, 0]])],
       argv=["--dim", "0 1 1 1 0 1 1 1 0"], cmds=("phonopy",))], dest="supercell_dimension")
val("primitive_axes", "--primitive-axes", [
    ex("auto", "AUTO", [("primitive_axes", "auto")], argv=["--primitive-axes", "auto"], alts=[["--pa", "AUTO"]]),
    ex("F", "F", [("primitive_axes", "F")], argv=["--pa", "F"]),
    ex("m", "0 1/2 1/2 1/2 0 1/2 1/2 1/2 0", [("primitive_axes", F)],
       argv=["--pa", "0 1/2 1/2 1/2 0 1/2 1/2 1/2 0"],
       alts=[["--primitive-axis", "0", "1/2", "1/2", "1/2", "0", "1/2", "1/2", "1/2", "0"]])],
    dest="primitive_axes", aliases=["primitive_axis"], optalts=["--pa", "--primitive-axis"])
val("mass", "--mass", [
    ex("a", "22.98 35.45", [("mass", [22.98, 35.45])], argv=["--mass", "22.98", "35.45"])], dest="masses")
val("magmom", "--magmom", [
    ex("a", "1 -1", [("magmom", [1.0, -1.0])], argv=["--magmom", "1", "-1"], alts=[["--magmom", "1 -1"]])],
    dest="magmoms")
val("atom_name", None, [ex("a", "na CL", [("atom_name", ["Na", "Cl"])])])
val("displacement_distance", "--amplitude", [
    ex("a", "0.03", [("displacement_distance", 0.03)], argv=["--amplitude", "0.03"], alts=[["--amin", "0.03"]])],
    dest="displacement_distance", optalts=["--amin"])
val("displacement_distance_max", "--amax", [
    ex("a", "0.1", [("displacement_distance_max", 0.1)], argv=["--amax", "0.1"])], doc=False,
    dest="displacement_distance_max")
flag("diag", "diag", "--nodiag", pol=False, dest="is_nodiag")
flag("pm", "pm", "--pm", dest="is_plusminus_displacements")
flag("trigonal", "is_trigonal_displacement", "--trigonal", doc=False, dest="is_trigonal_displacements")
flag("eigenvectors", "is_eigenvectors", "--eigenvectors", dest="is_eigenvectors", alts=["--eigvecs"])
flag("nac", "is_nac", "--nac", cmds=("phonopy",), opt_false="--nonac", cmds_false=("load",), dest="is_nac")
flag("symmetry", "is_symmetry", "--nosym", pol=False, dest="is_nosym", oo=2,
     extra_false=[("is_mesh_symmetry", False)])
flag("mesh_symmetry", "is_mesh_symmetry", "--nomeshsym", pol=False, dest="is_nomeshsym", oo=1)
CALCULATORS = ["abacus", "abinit", "aims", "castep", "cp2k", "crystal", "dftbp", "elk", "fleur", "lammps", "qe",
               "siesta", "turbomole", "vasp", "wien2k", "pwmat"]
val("calculator", "--qe", [
    ex(c, c, [("calculator", c)], argv=["--dftb+" if c == "dftbp" else "--" + c]) for c in CALCULATORS], doc=False)
val("fc_calculator", "--fc-calculator", [
    ex("alm", "ALM", [("fc_calculator", "ALM")], argv=["--fc-calculator", "alm"],
       alts=[["--alm"], ["--fc-calc", "ALM"]]),
    ex("symfc", "SYMFC", [("fc_calculator", "SYMFC")], argv=["--fc-calc", "symfc"]),
    ex("symfc2", "symfc", [("fc_calculator", "symfc")], argv=["--symfc"], cmds=("phonopy",))],
    dest="fc_calculator", optalts=["--fc-calc", "--alm", "--symfc"])
val("fc_calculator_options", "--fc-calculator-options", [
    ex("a", "cutoff = 4.0", [("fc_calculator_options", "cutoff = 4.0")],
       argv=["--fc-calculator-options", "cutoff = 4.0"], alts=[["--fc-calc-opt", "cutoff = 4.0"]], pair=False)],
    dest="fc_calculator_options", optalts=["--fc-calc-opt"])
flag("fc_symmetry", "fc_symmetry", "--fc-symmetry", cmds=("phonopy",), opt_false="--no-fc-symmetry",
     cmds_false=("load",), dest="fc_symmetry", alts=["--sym-fc"])
val("fc_decimals", "--fc-decimals", [
    ex("a", "8", [("fc_decimals", 8)], argv=["--fc-decimals", "8"])], doc=False, dest="force_constants_decimals")
val("dm_decimals", "--dm-decimals", [
    ex("a", "6", [("dm_decimals", 6)], argv=["--dm-decimals", "6"])], doc=False, dest="dynamical_matrix_decimals")
val("mesh", "--mesh", [
    ex("m3", "4 4 2", [("mesh_numbers", [4, 4, 2])], argv=["--mesh", "4", "4", "2"], alts=[["--mp", "4 4 2"]]),
    ex("len", "100.0", [("mesh_numbers", 100.0)], argv=["--mesh", "100.0"]),
    ex("m9", "2 0 0 0 2 0 0 0 2", [("mesh_numbers", [[2, 0, 0], [0, 2, 0], [0, 0, 2]])],
       argv=["--mesh", "2 0 0 0 2 0 0 0 2"])],
    dest="mesh_numbers", aliases=["mp", "mesh_numbers"], optalts=["--mp"])
val("band_points", "--band-points", [
    ex("a", "11", [("band_points", 11)], argv=["--band-points", "11"])], dest="band_points")
flag("band_const_interval", "is_band_const_interval", "--band-const-interval", doc=False,
     dest="is_band_const_interval")
val("band", "--band", [
    ex("p", "0 0 0 1/2 0 0, 1/2 1/2 0 0 0 0 1/3 1/3 1/3",
       [("band_paths", [[[0, 0, 0], [0.5, 0, 0]], [[0.5, 0.5, 0], [0, 0, 0], [third, third, third]]])],
       argv=["--band", "0 0 0 1/2 0 0, 1/2 1/2 0 0 0 0 1/3 1/3 1/3"],
       alts=[["--band", "0", "0", "0", "1/2", "0", "0,", "1/2", "1/2", "0", "0", "0", "0", "1/3", "1/3", "1/3"]]),
    ex("auto", "AUTO", [("band_paths", "auto")], argv=["--band", "auto"])], dest="band_paths")
val("qpoints", "--qpoints", [
    ex("q", "0 0 0 1/3 1/3 0", [("qpoints", [[0, 0, 0], [third, third, 0]])],
       argv=["--qpoints", "0 0 0 1/3 1/3 0"], alts=[["--qpoints", "0", "0", "0", "1/3", "1/3", "0"]]),
    ex("T", ".TRUE.", [("read_qpoints", True)], argv=["--read-qpoints"])], dest="qpoints")
flag("read_qpoints", "read_qpoints", "--read-qpoints", doc=False, dest="read_qpoints")
val("nac_method", "--nac-method", [
    ex("a", "WANG", [("nac_method", "wang")], argv=["--nac-method", "wang"], alts=[["--nac-method", "Wang"]])],
    dest="nac_method")
val("q_direction", "--q-direction", [
    ex("a", "1 0 0", [("nac_q_direction", [1.0, 0.0, 0.0])], argv=["--q-direction", "1", "0", "0"],
       alts=[["--q-direction", "1 0 0"]]),
    ex("f", "1/2 1/2 0", [("nac_q_direction", [0.5, 0.5, 0.0])], argv=["--q-direction", "1/2 1/2 0"])],
    dest="nac_q_direction")
val("frequency_conversion_factor", "--factor", [
    ex("a", "521.471", [("frequency_conversion_factor", 521.471)], argv=["--factor", "521.471"])],
    dest="frequency_conversion_factor")
val("frequency_scale_factor", None, [ex("a", "0.98", [("frequency_scale_factor", 0.98)])], doc=False)
val("fpitch", "--fpitch", [ex("a", "0.05", [("fpitch", 0.05)], argv=["--fpitch", "0.05"])], dest="fpitch")
val("num_frequency_points", None, [ex("a", "201", [("num_frequency_points", 201)])], doc=False)
val("cutoff_frequency", "--cutoff-frequency", [
    ex("a", "0.5", [("cutoff_frequency", 0.5)], argv=["--cutoff-frequency", "0.5"], alts=[["--cutoff-freq", "0.5"]]),
    ex("z", "0", [("cutoff_frequency", 0.0)], argv=["--cutoff-freq", "0"], zero=True)],
    dest="cutoff_frequency", optalts=["--cutoff-freq"])
flag("classical", "classical", "--classical", doc=False, dest="classical")
val("sigma", "--sigma", [
    ex("a", "0.1", [("sigma", 0.1)], argv=["--sigma", "0.1"])], dest="sigma")
flag("tetrahedron", "is_tetrahedron_method", None, doc=False)
val("symmetry_tolerance", "--tolerance", [
    ex("a", "1e-3", [("symmetry_tolerance", 1e-3)], argv=["--tolerance", "1e-3"])], dest="symmetry_tolerance")
val("tmin", "--tmin", [
    ex("a", "100", [("tmin", 100.0)], argv=["--tmin", "100"]),
    ex("z", "0", [("tmin", 0.0)], argv=["--tmin", "0"], zero=True)], dest="tmin")
val("tmax", "--tmax", [
    ex("a", "300", [("tmax", 300.0)], argv=["--tmax", "300"]),
    ex("z", "0", [("tmax", 0.0)], argv=["--tmax", "0"], zero=True)], dest="tmax")
val("tstep", "--tstep", [ex("a", "50", [("tstep", 50.0)], argv=["--tstep", "50"])], dest="tstep")
val("gv_delta_q", "--gv-delta-q", [
    ex("a", "0.01", [("gv_delta_q", 0.01)], argv=["--gv-delta-q", "0.01"])], dest="gv_delta_q")
val("hdf5_compression", "--hdf5-compression", [
    ex("lzf", "lzf", [("hdf5_compression", "lzf")], argv=["--hdf5-compression", "lzf"]),
    ex("none", "None", [("hdf5_compression", None)], argv=["--hdf5-compression", "None"]),
    ex("int", "4", [("hdf5_compression", 4)], argv=["--hdf5-compression", "4"])], doc=False,
    dest="hdf5_compression")
flag("save_params", "save_params", "--save-params", doc=False, dest="save_params", alts=["--sp"])
flag("use_pypolymlp", "use_pypolymlp", "--pypolymlp", doc=False, dest="use_pypolymlp")
val("mlp_params", "--mlp-params", [
    ex("a", "ntrain = 100", [("mlp_params", "ntrain = 100")], argv=["--mlp-params", "ntrain = 100"], pair=False)],
    doc=False, dest="mlp_params")
val("random_displacements", "--random-displacements", [
    ex("n", "4", [("random_displacements", 4)], argv=["--random-displacements", "4"], alts=[["--rd", "4"]]),
    ex("auto", "AUTO", [("random_displacements", "auto")], argv=["--rd", "auto"])],
    dest="random_displacements", optalts=["--rd"])
val("random_seed", "--random-seed", [
    ex("a", "7", [("random_seed", 7)], argv=["--random-seed", "7"]),
    ex("z", "0", [("random_seed", 0)], argv=["--random-seed", "0"], zero=True)], dest="random_seed")

# ---- PhonopyConfParser ------------------------------------------------------
val("band_format", "--band-format", [
    ex("a", "HDF5", [("band_format", "hdf5")], argv=["--band-format", "hdf5"], alts=[["--band-format", "HDF5"]])],
    dest="band_format")
val("band_labels", "--band-labels", [
    ex("a", "$\\Gamma$ X L", [("band_labels", ["$\\Gamma$", "X", "L"])],
       argv=["--band-labels", "$\\Gamma$", "X", "L"], alts=[["--band-labels", "$\\Gamma$ X L"]])],
    dest="band_labels")
flag("band_connection", "band_connection", "--band-connection", dest="is_band_connection")
flag("legacy_plot", "legacy_plot", "--legacy-plot", doc=False, dest="is_legacy_plot")
val("create_force_sets", "--force-sets", [
    ex("a", "d1/vasprun.xml d2/vasprun.xml", [("create_force_sets", ["d1/vasprun.xml", "d2/vasprun.xml"])],
       argv=["--force-sets", "d1/vasprun.xml", "d2/vasprun.xml"], alts=[["-f", "d1/vasprun.xml", "d2/vasprun.xml"]])],
    doc=False, dest="create_force_sets", optalts=["-f"])
val("create_force_sets_zero", "--force-sets-zero", [
    ex("a", "s/vasprun.xml d1/vasprun.xml", [("create_force_sets_zero", ["s/vasprun.xml", "d1/vasprun.xml"])],
       argv=["--fz", "s/vasprun.xml", "d1/vasprun.xml"])], doc=False, dest="create_force_sets_zero",
    optalts=["--fz"])
val("create_force_constants", "--force-constants", [
    ex("a", "vasprun.xml", [("create_force_constants", "vasprun.xml")], argv=["--fc", "vasprun.xml"])],
    doc=False, dest="create_force_constants", optalts=["--fc"])
val("force_constants", None, [
    ex("read", "READ", [("force_constants", "read")], argv=["--readfc"], override=False),
    ex("write", "WRITE", [("force_constants", "write")], argv=["--writefc"], override=False),
    ex("off", ".FALSE.", [("force_constants", ".false.")])])
flag("read_force_constants", "read_force_constants", "--readfc", dest="read_force_constants")
flag("write_force_constants", "write_force_constants", "--writefc", dest="write_force_constants")
flag("full_force_constants", "is_full_fc", "--full-fc", dest="is_full_fc")
val("cutoff_radius", "--cutoff-radius", [
    ex("a", "4.5", [("cutoff_radius", 4.5)], argv=["--cutoff-radius", "4.5"])], doc=False, dest="cutoff_radius")
flag("writedm", "write_dynamical_matrices", "--writedm", dest="write_dynamical_matrices")
flag("write_mesh", "write_mesh", "--nowritemesh", pol=False, dest="write_mesh")
flag("hdf5", "hdf5", "--hdf5", dest="is_hdf5")
val("mp_shift", None, [ex("a", "1/2 1/2 0", [("mp_shift", [0.5, 0.5, 0.0])])])
val("mesh_format", "--mesh-format", [
    ex("a", "HDF5", [("mesh_format", "hdf5")], argv=["--mesh-format", "hdf5"])], dest="mesh_format")
val("qpoints_format", "--qpoints-format", [
    ex("a", "HDF5", [("qpoints_format", "hdf5")], argv=["--qpoints-format", "hdf5"])], dest="qpoints_format")
flag("time_reversal_symmetry", "is_time_reversal_symmetry", None, doc=False)
flag("gamma_center", "is_gamma_center", "--gamma-center", dest="is_gamma_center", alts=["--gc"])
flag("fc_spg_symmetry", "fc_spg_symmetry", "--fc-spg-symmetry", doc=False, dest="fc_spg_symmetry")
val("readfc_format", "--readfc-format", [
    ex("a", "HDF5", [("readfc_format", "hdf5")], argv=["--readfc-format", "hdf5"])], dest="readfc_format", oo=1)
val("writefc_format", "--writefc-format", [
    ex("a", "HDF5", [("writefc_format", "hdf5")], argv=["--writefc-format", "hdf5"])], dest="writefc_format", oo=2)
val("fc_format", "--fc-format", [
    ex("a", "HDF5", [("readfc_format", "hdf5"), ("writefc_format", "hdf5")], argv=["--fc-format", "hdf5"]),
    ex("t", "TEXT", [("readfc_format", "text"), ("writefc_format", "text")], argv=["--fc-format", "text"])],
    dest="fc_format", oo=3)
val("anime", "--anime", [
    ex("v", "0 0.5 0", [("anime", ["0", "0.5", "0"]), ("anime_q", [0.0, 0.5, 0.0]), ("anime_n", 3),
                        ("anime_bi", 0), ("anime_amp", 0.5), ("anime_div", 0)],
       argv=["--anime", "0", "0.5", "0"], alts=[["--anime", "0 0.5 0"]]),
    ex("b", "4 5 20", [("anime", ["4", "5", "20"]), ("anime_q", [4.0, 5.0, 20.0]), ("anime_n", 3),
                       ("anime_bi", 4), ("anime_amp", 5.0), ("anime_div", 20)],
       argv=["--anime", "4", "5", "20"])], dest="anime", group="mode")
val("anime_type", None, [
    ex("p", "POSCAR", [("anime_type", "poscar")]), ex("v", "v_sim", [("anime_type", "v_sim")])])
val("modulation", "--modulation", [
    ex("a", "2 2 2, 0 0 1/2 1 2.0",
       [("modulation", {"dimension": [2, 2, 2], "order": None, "modulations": [[[0.0, 0.0, 0.5], 0, 2.0, 0]]})],
       argv=["--modulation", "2 2 2, 0 0 1/2 1 2.0"],
       alts=[["--modulation", "2", "2", "2,", "0", "0", "1/2", "1", "2.0"]])], dest="modulation", group="mode")
val("irreps", "--irreps", [
    ex("q", "0 0 1/2", [("irreps_qpoint", [0.0, 0.0, 0.5]), ("irreps_q", [0.0, 0.0, 0.5])],
       argv=["--irreps", "0", "0", "1/2"], alts=[["--irreps-qpoint", "0 0 1/2"]]),
    ex("qt", "0 0 0 1e-3", [("irreps_qpoint", [0.0, 0.0, 0.0, 1e-3]), ("irreps_q", [0.0, 0.0, 0.0]),
                            ("irreps_tol", 1e-3)], argv=["--irreps", "0", "0", "0", "1e-3"])],
    dest="irreps_qpoint", group="mode", optalts=["--irreps-qpoint"])
flag("show_irreps", "show_irreps", "--show-irreps", dest="show_irreps")
flag("little_cogroup", "little_cogroup", "--little-cogroup", dest="is_little_cogroup", alts=["--lcg"])
val("pdos", "--pdos", [
    ex("a", "1, 2", [("pdos", [[0], [1]])], argv=["--pdos", "1, 2"], alts=[["--pdos", "1,", "2"]]),
    ex("auto", "AUTO", [("pdos", "auto")], argv=["--pdos", "auto"])], dest="pdos")
flag("xyz_projection", "xyz_projection", "--xyz-projection", dest="xyz_projection")
flag("dos", "dos", "--dos", dest="is_dos_mode")
flag("debye_model", "fits_debye_model", "--fits-debye-model", dest="fits_debye_model")
val("dos_range", None, [
    ex("a", "0 40 0.1", [("dos_range", [0.0, 40.0, 0.1]), ("dos_range_min", 0.0), ("dos_range_max", 40.0),
                         ("dos_range_pitch", 0.1)])])
val("fmax", "--fmax", [ex("a", "35", [("fmax", 35.0)], argv=["--fmax", "35"])], dest="fmax")
val("fmin", "--fmin", [
    ex("a", "-1.5", [("fmin", -1.5)], argv=["--fmin=-1.5"]),
    ex("z", "0", [("fmin", 0.0)], argv=["--fmin", "0"])], dest="fmin")
flag("tprop", "tprop", "--thermal-property", dest="is_thermal_properties", group="thermal", alts=["-t"])
flag("ptprop", "ptprop", "--projected-thermal-property", doc=False, dest="is_projected_thermal_properties",
     group="thermal", alts=["--pt"])
flag("pretend_real", "pretend_real", "--pretend-real", dest="pretend_real", alts=["--pr"])
flag("tdisp", "tdisp", "--thermal-displacements", dest="is_thermal_displacements", group="thermal", alts=["--td"])
flag("tdispmat", "tdispmat", "--thermal-displacement-matrix", dest="is_thermal_displacement_matrices",
     group="thermal", alts=["--tdm"])
val("tdispmat_cif", "--tdm-cif", [
    ex("a", "300", [("tdispmat_cif", 300.0)], argv=["--tdm-cif", "300"],
       alts=[["--thermal-displacement-matrix-cif", "300"]]),
    ex("z", "0", [("tdispmat_cif", 0.0)], argv=["--tdm-cif", "0"], zero=True)],
    dest="thermal_displacement_matrices_cif", group="thermal", optalts=["--thermal-displacement-matrix-cif"])
val("tdistance", None, [ex("a", "1 2, 1 3", [("tdistance", [[0, 1], [0, 2]])])], doc=False, group="thermal")
val("projection_direction", "--projection-direction", [
    ex("a", "1 1 0", [("projection_direction", [1.0, 1.0, 0.0])], argv=["--pd", "1", "1", "0"],
       alts=[["--projection-direction", "1", "1", "0"]])], dest="projection_direction", optalts=["--pd"])
flag("group_velocity", "is_group_velocity", "--group-velocity", dest="is_group_velocity", alts=["--gv"])
flag("moment", "moment", "--moment", doc=False, dest="is_moment")
val("moment_order", "--moment-order", [
    ex("a", "2", [("moment_order", 2)], argv=["--moment-order", "2"]),
    ex("z", "0", [("moment_order", 0)], argv=["--moment-order", "0"], zero=True)], dest="moment_order")
val("random_displacement_temperature", "--rd-temperature", [
    ex("a", "300", [("random_displacement_temperature", 300.0)], argv=["--rd-temperature", "300"],
       alts=[["--temperature", "300"]]),
    ex("z", "0", [("random_displacement_temperature", 0.0)], argv=["--rd-temperature", "0"])],
    dest="rd_temperature", optalts=["--temperature"])
flag("lapack_solver", "lapack_solver", None, doc=False)
flag("include_fc", "include_fc", "--include-fc", dest="include_fc")
flag("include_fs", "include_fs", "--include-fs", dest="include_fs")
flag("include_nac_params", "include_nac_params", "--exclude-nac-params", pol=False, doc=False, cmds=("load",),
     dest="include_nac_params", aliases=["include_born"], alts=["--exclude-born"])
flag("include_disp", "include_disp", "--include-disp", dest="include_disp")
flag("include_all", "include_all", "--include-all", dest="include_all")
row("store_dense_svecs", [ex("T", ".TRUE.", [("store_dense_svecs", True)])], doc=False)
val("sscha_iterations", "--sscha", [
    ex("a", "3", [("sscha_iterations", 3)], argv=["--sscha", "3"])], doc=False, dest="sscha_iterations")

ROW_KEYS = [r["key"] for r in ROWS]
ALL_KEYS = sorted(set(ROW_KEYS) | {a for r in ROWS for a in r["aliases"]})

# ----------------------------------------------------------------------------
# rules: parameters -> settings (in the order of ConfParser.set_settings followed
# by PhonopyConfParser._set_settings).  cond = (param key, need) with need
# "*" (present), "!" (absent) or a python value; write = (attr, value[, guard])
# where value is a python constant or P("key") (= value of that parameter) and
# guard = (attr, "eq"|"ne", python value) evaluated on the settings *before*
# the write.
# ----------------------------------------------------------------------------


class P:
    def __init__(self, key):
        self.key = key


RULES = []


def rule(name, conds, writes):
    RULES.append(dict(name=name, conds=conds, writes=writes))


def simple(pkey, attr):
    rule(pkey, [(pkey, "*")], [(attr, P(pkey))])


for pk, at in [
    ("atom_name", "chemical_symbols"), ("band_indices", "band_indices"), ("cell_filename", "cell_filename"),
    ("create_displacements", "create_displacements"), ("classical", "classical"),
    ("cutoff_frequency", "cutoff_frequency"), ("diag", "is_diagonal_displacement"),
    ("displacement_distance", "displacement_distance"),
    ("displacement_distance_max", "displacement_distance_max"), ("dm_decimals", "dm_decimals"),
    ("calculator", "calculator"), ("fc_calculator", "fc_calculator"),
    ("fc_calculator_options", "fc_calculator_options"), ("fc_decimals", "fc_decimals"),
    ("fc_symmetry", "fc_symmetry"), ("frequency_conversion_factor", "frequency_conversion_factor"),
    ("frequency_scale_factor", "frequency_scale_factor"), ("fpitch", "frequency_pitch"),
    ("num_frequency_points", "num_frequency_points"), ("gv_delta_q", "group_velocity_delta_q"),
    ("mesh_numbers", "mesh_numbers"), ("is_eigenvectors", "is_eigenvectors"),
    ("is_mesh_symmetry", "is_mesh_symmetry"), ("is_nac", "is_nac"), ("is_symmetry", "is_symmetry"),
    ("is_tetrahedron_method", "is_tetrahedron_method"),
    ("is_trigonal_displacement", "is_trigonal_displacement"), ("magmom", "magnetic_moments"),
    ("mass", "masses"), ("pm", "is_plusminus_displacement"), ("primitive_axes", "primitive_matrix"),
    ("qpoints", "qpoints"),
]:
    simple(pk, at)
rule("read_qpoints", [("read_qpoints", True)], [("read_qpoints", True)])
for pk, at in [
    ("nac_method", "nac_method"), ("nac_q_direction", "nac_q_direction"), ("sigma", "sigma"),
    ("symmetry_tolerance", "symmetry_tolerance"), ("supercell_matrix", "supercell_matrix"),
    ("tmax", "max_temperature"), ("tmin", "min_temperature"), ("tstep", "temperature_step"),
    ("band_paths", "band_paths"), ("band_points", "band_points"),
    ("is_band_const_interval", "is_band_const_interval"), ("hdf5_compression", "hdf5_compression"),
    ("save_params", "save_params"), ("use_pypolymlp", "use_pypolymlp"), ("mlp_params", "mlp_params"),
    ("random_displacements", "random_displacements"), ("random_seed", "random_seed"),
    # --- PhonopyConfParser._set_settings
    ("create_force_sets", "create_force_sets"), ("create_force_sets_zero", "create_force_sets_zero"),
    ("create_force_constants", "create_force_constants"),
]:
    simple(pk, at)
rule("force_constants_write", [("force_constants", "write")], [("write_force_constants", True)])
rule("force_constants_read", [("force_constants", "read")], [("read_force_constants", True)])
for pk, at in [
    ("read_force_constants", "read_force_constants"), ("write_force_constants", "write_force_constants"),
    ("is_full_fc", "is_full_fc"), ("fc_spg_symmetry", "fc_spg_symmetry"), ("readfc_format", "readfc_format"),
    ("writefc_format", "writefc_format"), ("hdf5", "is_hdf5"), ("cutoff_radius", "cutoff_radius"),
]:
    simple(pk, at)
rule("mesh_mode", [("mesh_numbers", "*")], [("run_mode", "mesh"), ("mesh_numbers", P("mesh_numbers"))])
for pk, at in [
    ("mp_shift", "mesh_shift"), ("is_time_reversal_symmetry", "is_time_reversal_symmetry"),
    ("is_gamma_center", "is_gamma_center"), ("mesh_format", "mesh_format"),
]:
    simple(pk, at)
rule("band_mode", [("band_paths", "*")], [("run_mode", "band")])
for pk, at in [
    ("band_format", "band_format"), ("band_labels", "band_labels"), ("band_connection", "is_band_connection"),
    ("legacy_plot", "is_legacy_plot"),
]:
    simple(pk, at)
rule("qpoints_mode", [("qpoints", "*")], [("run_mode", "qpoints")])
rule("qpoints_mode_read", [("read_qpoints", "*")], [("run_mode", "qpoints")])
rule("qpoints_format", [("qpoints_format", "*")],
     [("qpoints_format", P("qpoints_format"), ("run_mode", "eq", "qpoints"))])
simple("write_dynamical_matrices", "write_dynamical_matrices")
simple("write_mesh", "write_mesh")
simple("anime_type", "anime_type")
rule("anime", [("anime", "*")], [
    ("run_mode", "anime"),
    ("anime_qpoint", P("anime_q"), ("anime_type", "eq", "v_sim")),
    ("anime_band_index", P("anime_bi"), ("anime_type", "ne", "v_sim")),
    ("anime_amplitude", P("anime_amp"), ("anime_type", "ne", "v_sim")),
    ("anime_division", P("anime_div"), ("anime_type", "ne", "v_sim")),
])
rule("modulation", [("modulation", "*")], [("run_mode", "modulation"), ("modulation", P("modulation"))])
rule("irreps", [("irreps_qpoint", "*")], [("run_mode", "irreps"), ("irreps_q_point", P("irreps_q"))])
rule("irreps_tol", [("irreps_tol", "*")], [("irreps_tolerance", P("irreps_tol"))])
simple("show_irreps", "show_irreps")
simple("little_cogroup", "is_little_cogroup")
rule("dos_range", [("dos_range", "*")], [
    ("min_frequency", P("dos_range_min")), ("max_frequency", P("dos_range_max")),
    ("frequency_pitch", P("dos_range_pitch"))])
simple("dos", "is_dos_mode")
simple("fits_debye_model", "fits_Debye_model")
simple("fmax", "max_frequency")
simple("fmin", "min_frequency")
rule("xyz_projection", [("xyz_projection", "*")], [
    ("xyz_projection", P("xyz_projection")),
    ("is_eigenvectors", True, ("pdos_indices", "eq", None)),
    ("is_mesh_symmetry", False, ("pdos_indices", "eq", None)),
    ("pdos_indices", [], ("pdos_indices", "eq", None)),
])
rule("pdos", [("pdos", "*")], [("pdos_indices", P("pdos")), ("is_eigenvectors", True),
                               ("is_mesh_symmetry", False)])
rule("projection_direction", [("projection_direction", "*")], [
    ("is_eigenvectors", True, ("xyz_projection", "ne", True)),
    ("is_mesh_symmetry", False, ("xyz_projection", "ne", True)),
    ("projection_direction", P("projection_direction"), ("xyz_projection", "ne", True)),
])
rule("tprop", [("tprop", "*")], [
    ("is_thermal_properties", P("tprop")), ("is_thermal_displacements", False),
    ("is_thermal_displacement_matrices", False), ("is_thermal_distances", False)])
rule("ptprop", [("ptprop", True)], [
    ("is_thermal_properties", True), ("is_projected_thermal_properties", True), ("is_eigenvectors", True),
    ("is_mesh_symmetry", False), ("is_thermal_displacements", False),
    ("is_thermal_displacement_matrices", False), ("is_thermal_distances", False)])
simple("pretend_real", "pretend_real")
rule("tdisp", [("tdisp", True)], [
    ("is_thermal_displacements", True), ("is_eigenvectors", True), ("is_mesh_symmetry", False),
    ("is_thermal_properties", False), ("is_thermal_displacement_matrices", False),
    ("is_thermal_distances", True)])
_TDM = [("is_thermal_displacement_matrices", True), ("is_eigenvectors", True), ("is_mesh_symmetry", False),
        ("is_thermal_properties", False), ("is_thermal_displacements", False), ("is_thermal_distances", False)]
rule("tdispmat", [("tdispmat", True)], list(_TDM))
rule("tdispmat_cif", [("tdispmat_cif", "*")],
     list(_TDM) + [("thermal_displacement_matrix_temperatue", P("tdispmat_cif"))])
rule("tdistance", [("tdistance", "*")], [
    ("is_thermal_distances", True), ("is_eigenvectors", True), ("is_mesh_symmetry", False),
    ("thermal_atom_pairs", P("tdistance")), ("is_thermal_properties", False),
    ("is_thermal_displacements", False), ("is_thermal_displacement_matrices", False)])
simple("is_group_velocity", "is_group_velocity")
rule("moment", [("moment", "*")], [("is_moment", P("moment")), ("is_eigenvectors", True),
                                   ("is_mesh_symmetry", False)])
rule("moment_order", [("moment_order", "*")], [("moment_order", P("moment_order"), ("is_moment", "eq", True))])
simple("random_displacement_temperature", "random_displacement_temperature")
simple("lapack_solver", "lapack_solver")
simple("include_fc", "include_force_constants")
simple("include_fs", "include_force_sets")
simple("include_nac_params", "include_nac_params")
simple("include_disp", "include_displacements")
# documented: `INCLUDE_ALL = .TRUE.` switches all four on
rule("include_all", [("include_all", True)], [
    ("include_force_constants", True), ("include_force_sets", True), ("include_nac_params", True),
    ("include_displacements", True)])
simple("store_dense_svecs", "store_dense_svecs")
rule("pdos_auto_mesh", [("pdos", "auto"), ("band_paths", "!")], [("run_mode", "mesh")])
rule("pdos_auto_band", [("pdos", "auto"), ("band_paths", "*")], [("run_mode", "band_mesh")])
rule("band_mesh", [("mesh_numbers", "*"), ("band_paths", "*")], [("run_mode", "band_mesh")])
simple("sscha_iterations", "sscha_iterations")

# rows whose effect depends on other rows (cross-row conditions, shared attributes): all pairs among
# these are checked in the quick tier, the remaining pairs are sampled
INTERACTING = [
    "mesh", "band", "qpoints", "read_qpoints", "qpoints_format", "anime", "anime_type", "irreps",
    "pdos", "xyz_projection", "projection_direction", "eigenvectors", "mesh_symmetry", "symmetry",
    "tprop", "tdisp", "tdispmat", "tdispmat_cif", "moment", "moment_order", "dos",
    "dos_range", "fmin", "fpitch", "force_constants", "read_force_constants", "fc_format", "readfc_format",
    "hdf5", "include_all", "include_fc", "nac", "fc_symmetry",
]

# families of rows that interact: configurations of THREE tags are formed inside each family
TRIPLE_FAMILIES = {
    "mesh": ["mesh", "band", "dos", "pdos", "tprop", "tdisp", "tdispmat", "moment", "eigenvectors", "mesh_symmetry"],
    "qpoints": ["qpoints", "writedm", "qpoints_format", "read_qpoints", "eigenvectors", "hdf5"],
    "nac": ["nac", "q_direction", "nac_method", "qpoints", "band"],
}

# attributes without effect while another attribute has a given value (so that settings which differ
# only there have the same effect): Phonopy.run_projected_dos ignores `direction` when xyz_projection,
# phonopy_script._run_calculation reads the QPOINTS file when read_qpoints and ignores settings.qpoints
MASKS = [("xyz_projection", True, "projection_direction"), ("read_qpoints", True, "qpoints")]

# options of the argparse parser that are not settings (log level, plotting, calculators' own flags)
NON_SETTING_DESTS = {
    "loglevel", "quiet", "verbose", "is_graph_plot", "is_graph_save", "is_legend", "is_check_symmetry",
    "is_wien2k_p1", "conf_filename", "filename", "temperature", "use_alm", "use_symfc",
}
# documentation deviations found while building the table (not violations of C18)
DOC_DEVIATIONS = [
    "command-options.md lists `--tdm-cif` as `TDISPMAT_CIF = .TRUE.`; the tag takes a temperature",
    "command-options.md lists `--symfc`; phonopy-load has no such option (symfc is its default)",
    "setting-tags.md heading `MOMEMT` (typo of MOMENT)",
]


# ----------------------------------------------------------------------------
# TLA+ emission
# ----------------------------------------------------------------------------
def _need(pk, n):
    if n in ("*", "!"):
        return dict(pk=pk, kind=n, val="")
    return dict(pk=pk, kind="=", val=attr_tok(pk, n))


def tla_tables():
    """Python structures handed to TLC (all strings / sequences / records)."""
    rows = {}
    for r in ROWS:
        exs = {}
        for e in r["examples"]:
            exs[e["id"]] = [[pk, attr_tok(pk, v)] for pk, v in e["sets"]]
        rows[r["key"]] = dict(exs=exs, group=r["group"] or "", oo=r["oo"], doc=r["doc"])
    rules = []
    for ru in RULES:
        ws = []
        for w in ru["writes"]:
            attr, v = w[0], w[1]
            g = w[2] if len(w) > 2 else None
            ws.append(dict(attr=attr, src="param" if isinstance(v, P) else "const",
                           val=v.key if isinstance(v, P) else attr_tok(attr, v),
                           g=g[1] if g else "none", gattr=g[0] if g else "", gval=attr_tok(g[0], g[2]) if g else ""))
        rules.append(dict(name=ru["name"], conds=[_need(pk, n) for pk, n in ru["conds"]], writes=ws))
    defaults = {c: {a: attr_tok(a, v) for a, v in defaults_of(c).items()} for c in CMDS}
    return rows, rules, defaults


def emit():
    from .tla_values import to_tla

    rows, rules, defaults = tla_tables()
    out = ["---------------------------- MODULE CLITable ----------------------------",
           "(* GENERATED by harness/c18_table.py (emit) - the tag/option table of C18. *)",
           "(* Rows: tag -> examples -> sequence of <<param key, value token>>;         *)",
           "(* Rules: conds /\\ guarded writes in stage order; Defaults per command.      *)",
           "EXTENDS Sequences", ""]
    out.append("TblRowKeys == " + to_tla(list(rows)))
    # TLC handles a big function literal better as a CASE operator
    out.append("TblSets(k, e) ==")
    first = True
    for k, r in rows.items():
        for e, s in r["exs"].items():
            out.append("  %s k = %s /\\ e = %s -> %s" % ("CASE" if first else "  []", to_tla(k), to_tla(e), to_tla(s)))
            first = False
    out.append("")
    out.append("TblGroup(k) ==")
    first = True
    for k, r in rows.items():
        if r["group"]:
            out.append("  %s k = %s -> %s" % ("CASE" if first else "  []", to_tla(k), to_tla(r["group"])))
            first = False
    out.append('    [] OTHER -> ""')
    out.append("")
    out.append("TblDoc == " + to_tla({k for k, r in rows.items() if r["doc"]}))
    out.append("")
    # index: parameter key -> rules whose first condition is on that key (TLC evaluates only those)
    idx = {}
    for i, ru in enumerate(rules):
        idx.setdefault(ru["conds"][0]["pk"], []).append(i + 1)
    out.append("TblRuleIdx(pk) ==")
    first = True
    for pk, ii in idx.items():
        out.append("  %s pk = %s -> {%s}" % ("CASE" if first else "  []", to_tla(pk), ", ".join(str(i) for i in ii)))
        first = False
    out.append("    [] OTHER -> {}")
    out.append("")
    out.append("TblRules == <<")
    out.append(",\n".join("  " + to_tla(ru) for ru in rules))
    out.append(">>")
    out.append("")
    out.append("TblMasks == " + to_tla([dict(attr=a, val=attr_tok(a, v), drop=d) for a, v, d in MASKS]))
    out.append("")
    for c in CMDS:
        out.append("TblDefaults_%s == %s" % (c, to_tla(defaults[c])))
    out.append('TblDefaults(c) == IF c = "load" THEN TblDefaults_load ELSE TblDefaults_phonopy')
    out.append("=============================================================================")
    return "\n".join(l for l in out) + "\n"


# ----------------------------------------------------------------------------
# drift between the table, the documentation and the code's tables
# ----------------------------------------------------------------------------
def drift(repo):
    """List of human-readable differences between this table and (a) the tags in
    doc/setting-tags.md, (b) the option/tag equivalences in doc/command-options.md,
    (c) the options of phonopy_argparse.py, (d) the conf keys and defaults in
    cui/settings.py.  Text-level extraction only (no import)."""
    problems = []
    src = open(os.path.join(repo, "phonopy/cui/settings.py")).read()
    keys = set(re.findall(r'conf_key == "([a-z_0-9]+)"', src))
    for m in re.findall(r"conf_key in [\[(]([^\])]+)[\])]", src):
        keys |= set(re.findall(r'"([a-z_0-9]+)"', m))
    mine = set(ALL_KEYS)
    for k in sorted(keys - mine):
        problems.append("conf key %r of settings.py has no row" % k)
    for k in sorted(mine - keys):
        problems.append("row %r is not a conf key of settings.py" % k)
    # documented tags
    doc = open(os.path.join(repo, "doc/setting-tags.md")).read()
    tags = set()
    for line in doc.splitlines():
        if line.startswith("#"):
            tags |= set(t.lower() for t in re.findall(r"`([A-Z_0-9]+)`", line))
    tags -= {"alm", "symfc", "momemt"}  # values of FC_CALCULATOR; typo of MOMENT
    docrows = {k for r in ROWS if r["doc"] for k in (r["key"],) + r["aliases"]}
    for t in sorted(tags - docrows):
        problems.append("documented tag %r is not a documented row" % t)
    for r in ROWS:
        if r["doc"] and not ({r["key"], *r["aliases"]} & tags):
            problems.append("row %r is marked documented but has no heading in setting-tags.md" % r["key"])
    # option equivalences
    opt = open(os.path.join(repo, "doc/command-options.md")).read()
    opt = opt.split("Some of command-line options are equivalent")[1].split("When both of equivalent")[0]
    opt = re.sub(r"\n\s+", " ", opt)
    n_equiv = 0
    for line in re.split(r"(?:^|\s)- (?=`-)", opt):
        m = re.match(r"((?:`-[^`]+`(?:, )?)+) \(`([A-Z_0-9]+)(?: = ([^`]+))?`(?: or `([A-Z_]+)`)?\)", line.strip())
        if not m:
            continue
        n_equiv += 1
        names = [o.replace("_", "-") for o in re.findall(r"`(-[^`]+)`", m.group(1))]
        tag = m.group(2).lower()
        r = _BY_KEY.get(tag) or next((x for x in ROWS if tag in x["aliases"]), None)
        if r is None:
            problems.append("command-options.md: tag %s of %s has no row" % (tag, names))
            continue
        allopts = set(r["opts"]) | {a[0] for e in r["examples"] for a in ([e["argv"]] if e["argv"] else []) + e["alts"]}
        for o in names:
            if o not in allopts and not any(x.startswith(o) for x in allopts):
                problems.append("command-options.md: option %s (%s) is not an option of row %s" % (o, tag, r["key"]))
    if n_equiv < 71:
        problems.append("only %d option/tag equivalences parsed from command-options.md" % n_equiv)
    # argparse options
    ap = open(os.path.join(repo, "phonopy/cui/phonopy_argparse.py")).read()
    ap = "\n".join(l for l in ap.splitlines() if not l.lstrip().startswith("#"))
    dests = set(re.findall(r'dest="([a-z_0-9]+)"', ap))
    mydests = {d for r in ROWS for d in r["dests"]} | NON_SETTING_DESTS
    for d in sorted(dests - mydests):
        problems.append("argparse dest %r is neither a row nor a declared non-setting option" % d)
    for d in sorted({d for r in ROWS for d in r["dests"]} - dests):
        problems.append("row dest %r is not an argparse dest" % d)
    flags = set(re.findall(r'^\s+"(--?[a-z0-9-]+)",\s*$', ap, re.M)) | set(re.findall(r'add_argument\(\s*"(--?[a-z0-9-]+)"', ap))
    myflags = {o for r in ROWS for o in r["opts"]}
    for e in (e for r in ROWS for e in r["examples"]):
        for a in ([e["argv"]] if e["argv"] else []) + e["alts"]:
            myflags.add(a[0].split("=")[0])
    for o in sorted(myflags - flags - {"--dftb+" if c == "dftbp" else "--" + c for c in CALCULATORS}):
        problems.append("option %s used by the table is not defined in phonopy_argparse.py" % o)
    # defaults
    blocks = re.findall(r"_default = \{(.*?)\n    \}", src, re.S)
    impl = {}
    for b in blocks:
        for k, v in re.findall(r'"([A-Za-z_0-9]+)": ([^,\n]+),', b):
            impl[k] = v.strip()
    for k, v in impl.items():
        if k not in DEFAULTS:
            problems.append("settings attribute %r has no documented default in the table" % k)
        elif repr(DEFAULTS[k]).replace("'", '"') != v:
            problems.append("default of %r: table %r, settings.py %s" % (k, DEFAULTS[k], v))
    for k in DEFAULTS:
        if k not in impl:
            problems.append("table attribute %r is not an attribute of the settings object" % k)
    return problems, dict(conf_keys=len(keys), documented_tags=len(tags), option_equivalences=n_equiv,
                          argparse_dests=len(dests))


if __name__ == "__main__":
    _here = os.path.dirname(os.path.dirname(os.path.abspath(__file__)))
    with open(os.path.join(_here, "spec", "CLITable.tla"), "w") as _f:
        _f.write(emit())
    print("spec/CLITable.tla written")
