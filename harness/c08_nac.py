"""Realisation of NAC.tla configurations as real phonopy objects (C08, reused by C12).

A configuration (see spec/NAC.tla) carries raw Born charges in mixed lattice
components Zh (integers) and a raw dielectric tensor in contravariant lattice
components Cc (symmetric integers).  On the real lattice L (rows, L L^T = a^2 G)

    Z_cart   = L^T Zh L^-T          eps_cart = L^T Cc L / a^2

and a direction / wave vector n in reduced coordinates of the UNIT cell's
reciprocal basis is  P^T n  in reduced coordinates of the primitive cell's.
Nothing here calls phonopy numerics except to build the objects under test.
"""
from __future__ import annotations

import contextlib
import io
from fractions import Fraction

import numpy as np

from . import bootstrap  # noqa: F401
from .oracle import Oracle

PMAT = {"nacl": "F", "naclg": "F"}
PMAT_NUM = {"F": np.array([[0, 0.5, 0.5], [0.5, 0, 0.5], [0.5, 0.5, 0]]),
            "I": np.array([[-0.5, 0.5, 0.5], [0.5, -0.5, 0.5], [0.5, 0.5, -0.5]]), None: np.eye(3)}

# unit conversion factors f of three calculators' unit systems (phonopy.interface.calculator)
NAC_FACTORS = {"vasp": 14.399652, "qe": 2.0, "abinit": 1.0}


@contextlib.contextmanager
def quiet():
    with contextlib.redirect_stdout(io.StringIO()):
        yield


def sym_pd_matrix(rng):
    d = [rng.randint(4, 7) for _ in range(3)]
    o = [rng.randint(-1, 1) for _ in range(3)]
    return [[d[0], o[0], o[1]], [o[0], d[1], o[2]], [o[1], o[2], d[2]]]


def rand_int_matrix(rng, lo=-3, hi=3):
    return [[rng.randint(lo, hi) for _ in range(3)] for _ in range(3)]


def frac_project(x, max_den=200000, tol=1e-7):
    """real -> (reduced Fraction, ok) ; ok iff the rational reproduces x to tol (relative to max(1,|x|))."""
    if not np.isfinite(x):
        return Fraction(0), False
    f = Fraction(float(x)).limit_denominator(max_den)
    ok = abs(float(f) - float(x)) <= tol * max(1.0, abs(float(x)))
    return f, ok


def common_den(fracs):
    den = 1
    for f in fracs:
        den = den * f.denominator // np.gcd(den, f.denominator)
    return int(den)


class SpecCrystal:
    """A crystal taken from the specification's state (no spring model): realised like an Oracle entry,
    with zero force constants (the correction does not depend on them)."""

    def __init__(self, cr, a=2.0, seed=0):
        from . import xtal
        self.cr = cr
        self.D = cr["D"]
        self.a = a
        self.L = xtal.lattice_from_gram(np.array(cr["G"], float), a=a, rng=np.random.default_rng(seed))
        self.Linv = np.linalg.inv(self.L)
        self.species = [at["sp"] for at in cr["atoms"]]
        self.masses = [float(at["m"]) for at in cr["atoms"]]
        self.num = [at["num"] for at in cr["atoms"]]

    def unitcell(self):
        from phonopy.structure.atoms import PhonopyAtoms
        from .oracle import SYMBOL_OF
        return PhonopyAtoms(symbols=[SYMBOL_OF[s] for s in self.species],
                            scaled_positions=np.array(self.num, dtype=float) / self.D, cell=self.L, masses=self.masses)

    def supercell_fc(self, S, supercell):
        n = len(supercell)
        return np.zeros((n, n, 3, 3))


class ShearedOracle:
    """The crystal of an Oracle handed to phonopy in another basis of the same lattice: rows L' = U L (U integer,
    unimodular), scaled positions x' = x U^-1.  Force constants are those of the same physical supercell: the
    supercell matrix S' of the sheared cell is S = U^T S' of the catalogue setting."""

    def __init__(self, orc, U):
        self.orc = orc
        self.U = np.array(U, dtype=int)
        self.D = orc.D
        self.a = orc.a
        self.L = self.U @ orc.L
        self.Linv = np.linalg.inv(self.L)
        self.species, self.masses = orc.species, orc.masses
        Uit = np.rint(np.linalg.inv(self.U)).astype(int).T
        self.num = [[int(v) for v in Uit @ np.array(nn)] for nn in orc.num]

    @staticmethod
    def original_supercell(U, S):
        return (np.array(U, dtype=int).T @ np.array(S, dtype=int)).tolist()

    def unitcell(self):
        from phonopy.structure.atoms import PhonopyAtoms
        from .oracle import SYMBOL_OF
        return PhonopyAtoms(symbols=[SYMBOL_OF[s_] for s_ in self.species],
                            scaled_positions=np.array(self.num, dtype=float) / self.D, cell=self.L, masses=self.masses)

    def supercell_fc(self, S, supercell):
        return self.orc.supercell_fc(self.original_supercell(self.U, S), supercell)


def reciprocal_basis_not_reduced(lattice):
    """True iff the reciprocal basis vectors (columns of inv(lattice)) are not the successive minima of the reciprocal
    lattice: then no signed permutation relates the basis to a reduced one (own brute-force search, no phonopy)."""
    import itertools
    rec = np.linalg.inv(np.array(lattice, float)).T            # rows = reciprocal basis vectors
    vecs = sorted((np.array(c) @ rec for c in itertools.product(range(-4, 5), repeat=3) if any(c)),
                  key=lambda v: v @ v)
    chosen = []
    for v in vecs:
        if np.linalg.matrix_rank(np.array(chosen + [v]), tol=1e-9) > len(chosen):
            chosen.append(v)
        if len(chosen) == 3:
            break
    minima = sorted(float(v @ v) for v in chosen)
    mine = sorted(float(v @ v) for v in rec)
    return bool(max(abs(a_ - b_) for a_, b_ in zip(minima, mine)) > 1e-9 * max(mine))


class NacCase:
    """One configuration on the real code."""

    def __init__(self, cfg, orc: Oracle, factor=14.399652):
        from phonopy import Phonopy

        self.cfg = cfg
        self.orc = orc
        self.L = orc.L
        self.Linv = np.linalg.inv(self.L)
        self.a = orc.a
        self.S = cfg["S"]
        self.pm_name = cfg["pm"] if "pm" in cfg else PMAT.get(cfg["entry"])
        self.P = PMAT_NUM[self.pm_name]
        self.factor = factor
        self.uc = orc.unitcell()
        with quiet():
            self.ph0 = Phonopy(self.uc, supercell_matrix=self.S, primitive_matrix=self.pm_name, log_level=0)
        self.fc_full = orc.supercell_fc(self.S, self.ph0.supercell)
        self.ph0.force_constants = self.fc_full.copy()
        prim = self.ph0.primitive
        self.fc_compact = np.array(self.fc_full[prim.p2s_map], dtype="double", order="C")
        self.nprim = len(self.ph0.supercell) // len(prim)
        self.masses = np.array(prim.masses)
        self.volume = prim.volume
        # primitive atom -> unit-cell atom (1-based) by position modulo the unit lattice
        self.at = []
        upos = np.array(self.uc.scaled_positions)
        for x in prim.positions:
            xu = x @ self.Linv
            d = upos - xu
            d -= np.rint(d)
            k = np.nonzero(np.abs(d @ self.L).sum(axis=1) < 1e-6)[0]
            assert len(k) == 1, (x, k)
            assert self.uc.symbols[k[0]] == prim.symbols[len(self.at)]
            self.at.append(int(k[0]) + 1)
        self.Zraw = np.array([self.L.T @ np.array(z, float) @ self.Linv.T for z in cfg["Z"]])
        self.eps_raw = self.L.T @ np.array(cfg["C"], float) @ self.L / self.a ** 2
        self._nac_objs = {}

    # ---- conversions -------------------------------------------------------
    def to_prim_red(self, n_unit):
        """unit-cell reciprocal reduced coordinates -> primitive-cell ones."""
        return self.P.T @ np.array(n_unit, dtype=float)

    def zh_of(self, Zcart):
        return self.Linv.T @ Zcart @ self.L.T

    def cc_of(self, eps):
        return self.Linv.T @ eps @ self.Linv * self.a ** 2

    def k_lattice(self, dD, p, pp):
        """block of (D_nac - D_plain) -> L K L^T / a^2 (real part; imaginary part returned separately)."""
        blk = dD[3 * p:3 * p + 3, 3 * pp:3 * pp + 3] * np.sqrt(self.masses[p] * self.masses[pp])
        blk = blk / (4 * np.pi * self.factor / self.volume)
        kt = self.L @ blk @ self.L.T / self.a ** 2
        return kt.real, float(np.abs(kt.imag).max())

    def k_cart_expected(self, Kspec, scale=True):
        """spec K record -> expected D_nac - D_plain (Cartesian, mass weighted, with 4 pi f / V)."""
        npa = len(self.at)
        out = np.zeros((3 * npa, 3 * npa))
        for p in range(npa):
            for pp in range(npa):
                Pm = np.array(Kspec["P"][self.at[p] - 1][self.at[pp] - 1], dtype=float)
                kt = Pm * Kspec["c1"] / Kspec["c2"] * self.a ** 2
                kc = self.Linv @ kt @ self.Linv.T
                out[3 * p:3 * p + 3, 3 * pp:3 * pp + 3] = kc / np.sqrt(self.masses[p] * self.masses[pp])
        return out * (4 * np.pi * self.factor / self.volume)

    # ---- symmetrisation (phonopy/structure/symmetry.py) ----------------------
    def symmetrise_unit(self):
        from phonopy.structure.symmetry import symmetrize_borns_and_epsilon

        with quiet():
            return symmetrize_borns_and_epsilon(self.Zraw, self.eps_raw, self.uc)

    def symmetrise_prim(self):
        from phonopy.structure.symmetry import symmetrize_borns_and_epsilon

        with quiet():
            return symmetrize_borns_and_epsilon(self.Zraw, self.eps_raw, self.uc,
                                                primitive_matrix=self.P, supercell_matrix=self.S)

    # ---- objects under test ----------------------------------------------------
    def nac_phonopy(self, method, layout, born=None, eps=None):
        from phonopy import Phonopy

        key = (method, layout)
        if key in self._nac_objs and born is None:
            return self._nac_objs[key]
        if born is None:
            born, eps = self.symmetrise_prim()
        with quiet():
            ph = Phonopy(self.uc, supercell_matrix=self.S, primitive_matrix=self.pm_name, log_level=0)
            ph.force_constants = (self.fc_full if layout == "full" else self.fc_compact).copy()
            ph.nac_params = dict(born=np.array(born), dielectric=np.array(eps), factor=self.factor, method=method)
        self._nac_objs[key] = ph
        return ph

    def nac_scale(self, born, eps):
        """natural magnitude of the correction (used as the scale of relative errors, also with zero force
        constants)."""
        emin = float(np.linalg.eigvalsh((np.array(eps) + np.array(eps).T) / 2).min())
        return 4 * np.pi * self.factor / self.volume * float(np.abs(born).max()) ** 2 / emin / float(self.masses.min())

    def plain_dm(self, q_prim):
        with quiet():
            self.ph0.run_qpoints([q_prim], with_dynamical_matrices=True)
        return np.array(self.ph0.get_qpoints_dict()["dynamical_matrices"][0])

    def nac_dm(self, ph, q_prim, route, direction=None):
        """route 'qpoints': Phonopy.run_qpoints (compiled solver over q-points);
        'dmrun': DynamicalMatrixNAC.run(q, q_direction);
        'qpoints_py': run_qpoints with the extension reporting use_openmp() = False (QpointsPhonon goes
                     through _get_dynamical_matrix, its own zone-centre test, and DynamicalMatrixNAC.run);
        'wang_py': the ImportError branch of DynamicalMatrixWang._compute_dynamical_matrix (_get_charge_sum,
                     _get_constant_factor, _run_py_Wang_force_constants) followed by the Python Fourier sum;
        'fullterms': a DynamicalMatrixGL object with with_full_terms=True (reciprocal + real-space + limiting
                     terms, Python path), through DynamicalMatrixNAC.run."""
        import sys
        with quiet():
            if route == "qpoints":
                ph.run_qpoints([q_prim], nac_q_direction=direction, with_dynamical_matrices=True)
                return np.array(ph.get_qpoints_dict()["dynamical_matrices"][0])
            if route == "qpoints_py":
                import phonopy._phonopy as phonoc
                orig = phonoc.use_openmp
                phonoc.use_openmp = lambda: False
                try:
                    ph.run_qpoints([q_prim], nac_q_direction=direction, with_dynamical_matrices=True)
                finally:
                    phonoc.use_openmp = orig
                return np.array(ph.get_qpoints_dict()["dynamical_matrices"][0])
            dm = ph.dynamical_matrix
            qa = np.array(q_prim, dtype=float)
            da = None if direction is None else np.array(direction, float)
            if route == "wang_py":
                from phonopy.harmonic.dynamical_matrix import DynamicalMatrix
                saved = sys.modules.get("phonopy._phonopy")
                sys.modules["phonopy._phonopy"] = None          # `import phonopy._phonopy` raises ImportError
                dm._run = lambda q, lang="C": DynamicalMatrix._run(dm, q, lang="Py")
                try:
                    if da is None and np.linalg.norm(dm._rec_lat @ qa) < dm.Q_DIRECTION_TOLERANCE:
                        DynamicalMatrix._run(dm, qa, lang="Py")
                    else:
                        dm._compute_dynamical_matrix(qa, da)
                finally:
                    del dm._run
                    sys.modules["phonopy._phonopy"] = saved
                return np.array(dm.dynamical_matrix)
            if route == "fullterms":
                dm = self.gl_full(ph)
            dm.run(qa, q_direction=da)
            return np.array(dm.dynamical_matrix)

    def gl_full(self, ph):
        """DynamicalMatrixGL(with_full_terms=True) with the parameters and force constants of ph."""
        from phonopy.harmonic.dynamical_matrix import DynamicalMatrixGL
        key = ("fullterms", id(ph))
        if key not in self._nac_objs:
            src = ph.dynamical_matrix
            self._nac_objs[key] = DynamicalMatrixGL(
                ph.supercell, ph.primitive, np.array(src.force_constants).copy(), with_full_terms=True,
                nac_params=dict(born=np.array(src.born), dielectric=np.array(src.dielectric_constant),
                                factor=self.factor))
        return self._nac_objs[key]


def require_actions_fired(ctx, res, module, actions):
    """-coverage 1 was requested: every named action must have produced states (machinery self-check)."""
    from . import tlc as tlcmod
    if not res.coverage:
        return
    cov = {k: v[1] for k, v in res.coverage.items()}
    ctx.extra["action_coverage_" + module] = cov
    dead = [a for a in actions if sum(v for k, v in cov.items() if k.startswith(a)) == 0]
    if dead:
        raise tlcmod.MachineryError("%s: actions never fired: %s (coverage %s)" % (module, dead, cov))
