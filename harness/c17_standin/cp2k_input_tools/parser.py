from __future__ import annotations

REPEATED = {"force_eval", "kind"}
ALIASES = {("global", "project"): "project_name"}
UNIT = {"[angstrom]": 1.0, "[bohr]": 0.52917721067, "[au]": 0.52917721067}


def _conv(tok):
    for f in (int, float):
        try:
            return f(tok)
        except ValueError:
            pass
    t = tok.upper()
    if t in (".TRUE.", "TRUE", "T", "YES"):
        return True
    if t in (".FALSE.", "FALSE", "F", "NO"):
        return False
    return tok


class CP2KInputParser:
    def parse(self, fhandle):
        root = {}
        stack = [("", root)]
        for raw in fhandle:
            line = raw.split("!")[0].split("#")[0].strip()
            if not line or line.startswith("@"):
                continue
            if line.upper().startswith("&END"):
                stack.pop()
                continue
            name, cur = stack[-1]
            if line.startswith("&"):
                parts = line[1:].split()
                sname = parts[0].lower()
                sec = {}
                if len(parts) > 1:
                    sec["_"] = " ".join(parts[1:])
                key = "+" + sname
                if sname in REPEATED:
                    cur.setdefault(key, []).append(sec)
                else:
                    cur[key] = sec
                stack.append((sname, sec))
                continue
            toks = line.split()
            kw = toks[0].lower()
            kw = ALIASES.get((name, kw), kw)
            if name == "coord" and kw not in ("scaled", "unit"):
                cur.setdefault("*", []).append(line)
                continue
            vals = toks[1:]
            scale = 1.0
            if vals and vals[0].lower() in UNIT:
                scale = UNIT[vals[0].lower()]
                vals = vals[1:]
            conv = [_conv(v) for v in vals]
            if scale != 1.0:
                conv = [v * scale if isinstance(v, float) or isinstance(v, int) else v for v in conv]
            if not conv:
                cur[kw] = True
            elif len(conv) == 1:
                cur[kw] = conv[0]
            else:
                cur[kw] = conv
        return root
