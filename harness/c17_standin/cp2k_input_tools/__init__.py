"""Stand-in for the third-party package ``cp2k_input_tools`` (not installed in
this sandbox; no network).  Only what phonopy.interface.cp2k uses:
``parser.CP2KInputParser().parse(fh)`` -> nested dict ("+section" keys,
lower-case keywords, repeated FORCE_EVAL/KIND sections as lists, raw COORD
lines under "*") and ``generator.CP2KInputGenerator().line_iter(tree)``.
Written from the package's documented tree convention; part of the trusted
base of check C17 (see harness/props/c17.py, assumptions)."""
