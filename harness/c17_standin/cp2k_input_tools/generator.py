from __future__ import annotations


def _fmt(v):
    if v is True:
        return ".TRUE."
    if v is False:
        return ".FALSE."
    return str(v)


class CP2KInputGenerator:
    def line_iter(self, tree, indent=0):
        pad = "   " * indent
        for key, val in tree.items():
            if key == "_":
                continue
            if key.startswith("+"):
                secs = val if isinstance(val, list) else [val]
                name = key[1:].upper()
                for sec in secs:
                    par = (" " + str(sec["_"])) if "_" in sec else ""
                    yield "%s&%s%s" % (pad, name, par)
                    yield from self.line_iter(sec, indent + 1)
                    yield "%s&END %s" % (pad, name)
            elif key == "*":
                for line in val:
                    yield pad + str(line)
            elif isinstance(val, (list, tuple)):
                yield "%s%s %s" % (pad, key.upper(), " ".join(_fmt(v) for v in val))
            else:
                yield "%s%s %s" % (pad, key.upper(), _fmt(val))
