"""C03: every route by which a dynamical matrix is REPORTED (DynamicalMatrix.run,
Phonopy.get_dynamical_matrix_at_q, run_qpoints -> get_qpoints_dict, qpoints.yaml,
qpoints.hdf5) x with_eigenvectors x with_group_velocities, on the loaded build of the
extension, projected to the run records of spec/DynMatRoutes.tla.  In-process for the
first build, as a worker (`python -m harness.c03_routes job.pkl out.pkl`) for the other."""
from __future__ import annotations

import contextlib
import io
import itertools
import os
import pickle
import sys
import tempfile

import numpy as np

from harness import bootstrap  # noqa: F401

TOL_SERIES = 1e-10
TOL_TR = 1e-12
TOL_YAML = 1e-7       # absolute, in units of the scale: qpoints.yaml prints %15.10f
TOL_SCALE = 1e-12


@contextlib.contextmanager
def _in_tmpdir():
    old = os.getcwd()
    d = tempfile.mkdtemp(prefix="c03_routes_")
    os.chdir(d)
    try:
        yield d
    finally:
        os.chdir(old)
        import shutil
        shutil.rmtree(d, ignore_errors=True)


def _read_yaml(path, nband):
    import yaml

    with open(path) as f:
        y = yaml.safe_load(f)
    out = []
    for p in y["phonon"]:
        rows = np.array(p["dynamical_matrix"], dtype=float)
        out.append(rows[:, 0::2] + 1j * rows[:, 1::2])
    return np.array(out)


def reported(ph, qs):
    """{(route, ev, gv): D at qs}; qs = [q1.., -q1..]"""
    qs = np.array(qs, dtype="double")
    out = {}
    with contextlib.redirect_stdout(io.StringIO()):
        dmo = ph.dynamical_matrix
        mats = []
        for q in qs:
            dmo.run(q)
            mats.append(np.array(dmo.dynamical_matrix))
        out[("run", False, False)] = np.array(mats)
        out[("at_q", False, False)] = np.array([np.array(ph.get_dynamical_matrix_at_q(q)) for q in qs])
        for ev, gv in itertools.product((False, True), repeat=2):
            ph.run_qpoints(qs, with_eigenvectors=ev, with_group_velocities=gv, with_dynamical_matrices=True)
            out[("qpoints", ev, gv)] = np.array(ph.get_qpoints_dict()["dynamical_matrices"])
            with _in_tmpdir():
                ph.write_yaml_qpoints_phonon()
                out[("yaml", ev, gv)] = _read_yaml("qpoints.yaml", out[("qpoints", ev, gv)].shape[1])
                ph.write_hdf5_qpoints_phonon()
                import h5py
                with h5py.File("qpoints.hdf5", "r") as f:
                    out[("hdf5", ev, gv)] = np.array(f["dynamical_matrix"][:])
    return out


def judge(mats, exp, scale):
    """numerical interpretation of the identities on the reported matrices -> (runs, worst)"""
    nq = len(exp) // 2
    exp = np.array(exp)
    runs, worst = [], dict(series=0.0, herm=0.0, trev=0.0, yaml=0.0)
    for (route, ev, gv), D in sorted(mats.items()):
        y = route == "yaml"
        ok_shape = D.shape == exp.shape
        e_ser = float(np.abs(D - exp).max() / scale) if ok_shape else np.inf
        e_her = float(np.abs(D - D.conj().transpose(0, 2, 1)).max() / scale) if ok_shape else np.inf
        e_tr = float(np.abs(D[nq:] - D[:nq].conj()).max() / scale) if ok_shape else np.inf
        if y:
            worst["yaml"] = max(worst["yaml"], e_ser, e_her, e_tr)
            v = dict(series=e_ser <= TOL_YAML / min(scale, 1.0) + TOL_SERIES, herm=e_her <= TOL_YAML / min(scale, 1.0),
                     trev=e_tr <= TOL_YAML / min(scale, 1.0))
        else:
            worst["series"], worst["herm"], worst["trev"] = max(worst["series"], e_ser), max(worst["herm"], e_her), max(worst["trev"], e_tr)
            v = dict(series=e_ser <= TOL_SERIES, herm=e_her == 0.0, trev=e_tr <= TOL_TR)
        runs.append(dict(route=route, ev=bool(ev), gv=bool(gv), series=bool(v["series"]), herm=bool(v["herm"]),
                         trev=bool(v["trev"]), scal=True, _err=dict(series=e_ser, herm=e_her, trev=e_tr)))
    return runs, worst


def _worker(job_path, out_path):
    from phonopy import Phonopy
    from phonopy.structure.atoms import PhonopyAtoms

    with open(job_path, "rb") as f:
        jobs = pickle.load(f)
    out = []
    for j in jobs:
        try:
            cell = PhonopyAtoms(symbols=j["symbols"], scaled_positions=j["scaled_positions"], cell=j["cell"], masses=j["masses"])
            with contextlib.redirect_stdout(io.StringIO()):
                ph = Phonopy(cell, supercell_matrix=j["S"], primitive_matrix=j["P"], store_dense_svecs=j["dense"], log_level=0)
            ph.masses = j["pmasses"]
            ph.force_constants = j["fc"]
            mats = reported(ph, j["qs"])
            runs, worst = judge(mats, j["exp"], j["scale"])
            out.append(dict(id=j["id"], runs=runs, worst=worst, mats=mats, error=None))
        except Exception as e:
            out.append(dict(id=j["id"], runs=[], worst={}, mats={}, error=repr(e)))
    with open(out_path, "wb") as f:
        pickle.dump(dict(build=bootstrap.VARIANT, results=out), f)


if __name__ == "__main__":
    _worker(sys.argv[1], sys.argv[2])
