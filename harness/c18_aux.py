"""C18 workflow level, the other console scripts of phonopy/scripts with a data path:
phonopy-qha, phonopy-calc-convert, phonopy-bandplot --gnuplot, phonopy-propplot --gnuplot.
The specification (CLIWorkflow.tla, action Aux) says when they run and what they write; here
the real scripts are run, the inputs are abstracted, and the one library call of each is
replayed and compared with what the script wrote (files or standard output)."""
from __future__ import annotations

import os
import re
import shutil
import tempfile

import numpy as np

from harness import bootstrap  # noqa: F401
from harness import c18_cli as C

AUX = {"qha": "phonopy_qha", "convert": "phonopy_calc_convert", "bandplot": "phonopy_bandplot",
       "propplot": "phonopy_propplot", "vaspborn": "phonopy_vasp_born"}
QHA_FILES = {"helmholtz-volume.dat", "helmholtz-volume_fitted.dat", "volume-temperature.dat",
             "thermal_expansion.dat", "gibbs-temperature.dat", "bulk_modulus-temperature.dat",
             "Cp-temperature.dat", "Cp-temperature_polyfit.dat", "gruneisen-temperature.dat",
             "entropy-volume.dat", "Cv-volume.dat", "dsdv-temperature.dat"}
CALC_NAMES = {"abacus", "abinit", "aims", "castep", "cp2k", "crystal", "dftbp", "elk", "fleur", "lammps", "qe",
              "siesta", "turbomole", "vasp", "wien2k", "pwmat"}


def _opt(argv, name, default=None, flag=False):
    if flag:
        return name in argv
    return argv[argv.index(name) + 1] if name in argv else default


def positional(argv, valued):
    out, skip = [], False
    for a in argv:
        if skip:
            skip = False
            continue
        if a in valued:
            skip = True
            continue
        if a.startswith("-") and not re.match(r"^-?\d", a):
            continue
        out.append(a)
    return out


def abstract(cmd, argv, d, sbase):
    """(inp, s, info) of an invocation of one of the other scripts in directory d."""
    ex = lambda f: os.path.exists(os.path.join(d, f))  # noqa: E731
    s = dict(sbase)
    inp = set()
    info = {}
    if cmd == "qha":
        pos = positional(argv, {"--eos", "--pressure", "--efe", "--sparse", "--tmax"})
        s["bulk_only"] = "-b" in argv
        info["files"] = pos
        if pos and ex(pos[0]):
            inp.add("e-v.dat")
            nvol = len(C.parse_dat(os.path.join(d, pos[0])))
            if len(pos) - 1 == nvol and all(ex(f) for f in pos[1:]):
                inp.add("thermal_properties_set")
    elif cmd == "convert":
        fin, fout = _opt(argv, "-i"), _opt(argv, "-o")
        cin, cout = _opt(argv, "--calcin"), _opt(argv, "--calcout")
        s["calcs_ok"] = bool(cin and cout and cin.lower() in CALC_NAMES and cout.lower() in CALC_NAMES)
        if fin and ex(fin):
            inp.add("infile")
        if fout and ex(fout):
            inp.add("outfile")
        info.update(fin=fin, fout=fout, cin=cin, cout=cout)
    elif cmd == "bandplot":
        s["band_hdf5"] = "--hdf5" in argv
        pos = positional(argv, {"--factor", "-o", "--output", "--dos", "--fmax", "--fmin"})
        f = pos[0] if pos else ("band.hdf5" if s["band_hdf5"] else "band.yaml")
        info["file"] = f
        if ex(f):
            inp.add("band.hdf5" if s["band_hdf5"] else "band.yaml")
    elif cmd == "propplot":
        pos = positional(argv, {"--factor", "-o", "--output", "--tmax", "--tmin", "--ymax", "--ymin"})
        f = pos[0] if pos else "thermal_properties.yaml"
        info["file"] = f
        if ex(f):
            inp.add("thermal_properties.yaml")
    elif cmd == "vaspborn":
        pos = positional(argv, {"--dim", "--pa", "--tolerance"})
        info["outcar"] = pos[0] if pos else "OUTCAR"
        info["poscar"] = pos[1] if len(pos) > 1 else "POSCAR"
        if ex(info["outcar"]):
            inp.add("OUTCAR")
        if ex(info["poscar"]):
            inp.add("POSCAR")
    return inp, s, info


def write_outcar(path, borns, epsilon):
    """The two blocks of a VASP OUTCAR (LEPSILON run) that carry the dielectric tensor and Z*."""
    with open(path, "w") as f:
        f.write("   number of dos      NEDOS =    301   number of ions     NIONS = %6d\n\n" % len(borns))
        f.write(" MACROSCOPIC STATIC DIELECTRIC TENSOR (including local field effects in DFT)\n")
        f.write(" ------------------------------------------------------\n")
        for v in epsilon:
            f.write("  %18.12f %18.12f %18.12f\n" % tuple(v))
        f.write(" ------------------------------------------------------\n\n")
        f.write(" BORN EFFECTIVE CHARGES (in e, cummulative output)\n")
        f.write(" -------------------------------------------------\n")
        for i, z in enumerate(borns):
            f.write(" ion %4d\n" % (i + 1))
            for k, v in enumerate(z):
                f.write("  %3d %18.12f %18.12f %18.12f\n" % ((k + 1,) + tuple(v)))
        f.write("\n")


def data_lines(stdout):
    rows = []
    for l in stdout.splitlines():
        t = l.split()
        if t and not l.lstrip().startswith("#"):
            try:
                rows.append([float(x) for x in t])
            except ValueError:
                return None
    return rows


def abstract_outputs(cmd, argv, r, info):
    out = set()
    for f in r["written"]:
        if cmd == "convert" and info.get("fout") and (f == info["fout"] or f.startswith(info["fout"] + os.sep)):
            out.add("CONVERTED")
        else:
            out.add(f)
    printed = data_lines(r["stdout"])
    if cmd in ("bandplot", "propplot") and printed:
        out.add("stdout")
    if cmd == "qha" and "-b" in argv and "Bulk modulus:" in r["stdout"]:
        out.add("stdout")
    if cmd == "vaspborn" and "# epsilon and Z* of atoms" in r["stdout"]:
        out.add("stdout")
    return out


# ---- replay -------------------------------------------------------------------------------------
def replay(job, call, cmp, compare_text):
    """Execute the specification's call of an aux job on the library and compare."""
    name = call["name"]
    argv, ind, outd, info = job["argv"], job["indir"], job["outdir"], job["info"]
    if name in ("qha", "qha_bulk_modulus"):
        from phonopy import PhonopyQHA
        from phonopy.units import EVAngstromToGPa

        ev = C.parse_dat(os.path.join(ind, info["files"][0]))
        volumes, energies = ev[:, 0], ev[:, 1]
        eos = _opt(argv, "--eos", "vinet")
        pressure = _opt(argv, "--pressure")
        pressure = None if pressure is None else float(pressure)
        if name == "qha_bulk_modulus":
            q = PhonopyQHA(volumes, electronic_energies=energies, pressure=pressure, eos=eos)
            p = q.get_bulk_modulus_parameters()
            got = {k: float(v) for k, v in re.findall(r"^(Volume|Energy|Bulk modulus): (\S+)", job["stdout"], re.M)}
            cmp.checked.add("stdout")
            cmp.close("stdout:volume", got.get("Volume", np.nan), p[3], 0.6e-7)
            cmp.close("stdout:energy", got.get("Energy", np.nan), p[0], 0.6e-7)
            cmp.close("stdout:bulk modulus", got.get("Bulk modulus", np.nan), p[1] * EVAngstromToGPa, 0.6e-7)
            return
        tps = [C.load_yaml(os.path.join(ind, f))["thermal_properties"] for f in info["files"][1:]]
        temps = [x["temperature"] for x in tps[0]]
        arr = lambda key: np.array([[x[key] for x in tp] for tp in tps]).T  # noqa: E731  (temperatures, volumes)
        tmax = float(_opt(argv, "--tmax", 1000.0))
        thin = int(_opt(argv, "--sparse", 10))
        q = PhonopyQHA(volumes=volumes, electronic_energies=energies, eos=eos, temperatures=temps, pressure=pressure,
                       free_energy=arr("free_energy"), cv=arr("heat_capacity"), entropy=arr("entropy"), t_max=tmax)
        n = len(q.volume_temperature)
        two = {"volume-temperature.dat": q.volume_temperature, "thermal_expansion.dat": q.thermal_expansion,
               "gibbs-temperature.dat": q.gibbs_temperature, "bulk_modulus-temperature.dat": q.bulk_modulus_temperature,
               "Cp-temperature.dat": q.heat_capacity_P_numerical, "Cp-temperature_polyfit.dat": q.heat_capacity_P_polyfit,
               "gruneisen-temperature.dat": q.gruneisen_temperature}
        for f, ref in two.items():
            if not os.path.exists(os.path.join(outd, f)):
                continue
            a = C.parse_dat(os.path.join(outd, f))
            ref = np.asarray(ref, dtype=float)
            cmp.close(f + ":temperature", a[:, 0], np.asarray(temps[:len(a)], dtype=float), 0.6e-15 * 1000)
            cmp.close(f + ":values", a[:, 1], ref[:len(a)], 1e-12 * max(1.0, float(np.abs(ref).max())))
            cmp.equal(f + ":rows", len(a) in (n, len(ref)), True)
        # every file against the library's own writers on the same PhonopyQHA inputs
        scratch = tempfile.mkdtemp(prefix="c18qha_")
        cwd = os.getcwd()
        os.chdir(scratch)
        try:
            q.write_helmholtz_volume()
            q.write_helmholtz_volume_fitted(thin_number=thin)
            q.write_volume_temperature()
            q.write_thermal_expansion()
            q.write_gibbs_temperature()
            q.write_bulk_modulus_temperature()
            q.write_heat_capacity_P_numerical()
            q.write_heat_capacity_P_polyfit()
            q.write_gruneisen_temperature()
        finally:
            os.chdir(cwd)
        for f in sorted(os.listdir(scratch)):
            if os.path.exists(os.path.join(outd, f)):
                cmp.checked.add(f)
                with open(os.path.join(outd, f)) as fa, open(os.path.join(scratch, f)) as fb:
                    compare_text(cmp, f, fa.read(), fb.read())
            else:
                cmp.bad.append("%s: written by the library, not by phonopy-qha" % f)
        shutil.rmtree(scratch, ignore_errors=True)
    elif name == "convert":
        from phonopy.interface.calculator import (get_default_physical_units, read_crystal_structure,
                                                  write_crystal_structure)

        cin, cout = info["cin"].lower(), info["cout"].lower()
        cell, _ = read_crystal_structure(filename=os.path.join(ind, info["fin"]), interface_mode=cin)
        fac = get_default_physical_units(cin)["distance_to_A"] / get_default_physical_units(cout)["distance_to_A"]
        cell.cell = cell.cell * fac
        scratch = tempfile.mkdtemp(prefix="c18conv_")
        cwd = os.getcwd()
        os.chdir(scratch)
        try:
            write_crystal_structure("ref.out", cell, interface_mode=cout)
            back, _ = read_crystal_structure(filename=os.path.join(outd, info["fout"]), interface_mode=cout)
        finally:
            os.chdir(cwd)
        cmp.checked.add("CONVERTED")
        ref = os.path.join(scratch, "ref.out")
        got = os.path.join(outd, info["fout"])
        pairs = [(got, ref)] if os.path.isfile(ref) else [(os.path.join(got, f), os.path.join(ref, f)) for f in os.listdir(ref)]
        for a, b in pairs:
            if not os.path.exists(a):
                cmp.bad.append("CONVERTED: %s missing" % os.path.basename(a))
                continue
            with open(a) as fa, open(b) as fb:
                compare_text(cmp, "CONVERTED", fa.read().replace(info["fout"], "X"), fb.read().replace("ref.out", "X"))
        if back is not None:
            # the converted file describes the same crystal (lengths in the target's unit)
            tol = job["tol"]
            g0 = cell.cell @ cell.cell.T
            g1 = back.cell @ back.cell.T
            cmp.close("CONVERTED:metric", g1, g0, tol["lat"] * float(g0[0, 0]) + 1e-9)
            dpos = back.scaled_positions - cell.scaled_positions
            cmp.close("CONVERTED:positions", dpos - np.rint(dpos), np.zeros_like(dpos), tol["frac"] + 1e-9)
            cmp.equal("CONVERTED:symbols", list(back.symbols), list(cell.symbols))
        shutil.rmtree(scratch, ignore_errors=True)
    elif name == "vasp_born":
        from phonopy.interface.vasp import get_born_OUTCAR

        borns, eps, idx = get_born_OUTCAR(poscar_filename=os.path.join(ind, info["poscar"]),
                                          outcar_filename=os.path.join(ind, info["outcar"]),
                                          primitive_matrix=np.eye(3), supercell_matrix=np.eye(3, dtype="intc"),
                                          symmetrize_tensors="--nost" not in argv and "--no-symmetrize-tensors" not in argv,
                                          symprec=float(_opt(argv, "--tolerance", 1e-5)))
        lines = [l for l in job["stdout"].splitlines() if l.strip()]
        lines = lines[next(i for i, l in enumerate(lines) if l.startswith("# epsilon")):]  # (warnings precede)
        cmp.checked.add("stdout")
        cmp.equal("stdout:independent atoms", lines[0].split()[6:], [str(i + 1) for i in idx])
        cmp.close("stdout:epsilon", [float(x) for x in lines[1].split()], np.ravel(eps), 0.6e-8)
        cmp.close("stdout:born", [[float(x) for x in l.split()] for l in lines[2:]], np.reshape(borns, (-1, 9)), 0.6e-8)
    elif name == "gnuplot_band":
        rows = data_lines(job["stdout"]) or []
        factor = float(_opt(argv, "--factor", 1.0))
        f = os.path.join(ind, info["file"])
        if info["file"].endswith("hdf5"):
            h = C.read_hdf5(f)
            freqs = np.array(h["frequency"])
            freqs = freqs.reshape(-1, freqs.shape[-1])
            dist = np.ravel(h["distance"])
            seg = [int(x) for x in h["segment_nqpoint"]]
        else:
            y = C.load_yaml(f)
            freqs = np.array([[b["frequency"] for b in p["band"]] for p in y["phonon"]])
            dist = np.array([p["distance"] for p in y["phonon"]])
            seg = list(y["segment_nqpoint"])
        exp = []
        for b in range(freqs.shape[1]):
            q0 = 0
            for nq in seg:
                exp += [[dist[i], freqs[i, b] * factor] for i in range(q0, q0 + nq)]
                q0 += nq
        cmp.checked.add("stdout")
        cmp.close("stdout:band data", np.array(rows), np.array(exp), 0.6e-6)
        m = re.search(r"^#\s+([\d. ]+)$", job["stdout"], re.M)
        ends = [0]
        for nq in seg:
            ends.append(ends[-1] + nq)
        ends[-1] -= 1
        cmp.close("stdout:segment end points", [float(x) for x in m.group(1).split()] if m else [], dist[ends], 0.6e-8)
    elif name == "gnuplot_prop":
        rows = data_lines(job["stdout"]) or []
        tp = C.load_yaml(os.path.join(ind, info["file"]))["thermal_properties"]
        t = np.array([x["temperature"] for x in tp])
        dt = t[1] - t[0]
        lo = _opt(argv, "--tmin")
        hi = _opt(argv, "--tmax")
        keep = np.ones(len(t), dtype=bool)
        if lo is not None:
            keep &= t > float(lo) - 0.1 * dt
        if hi is not None:
            keep &= t <= float(hi) + 0.1 * dt
        exp = [[x["temperature"], x["free_energy"], x["entropy"], x["heat_capacity"],
                x["free_energy"] + x["entropy"] * x["temperature"] / 1000] for x, k in zip(tp, keep) if k]
        cmp.checked.add("stdout")
        cmp.close("stdout:thermal properties", np.array(rows), np.array(exp), 0.6e-7)
