"""C13 - recording of the calls the Python layer makes into phonopy._phonopy,
and replay of the recorded calls at the extension boundary.

`record(seed)` drives phonopy's Python layer over a few small crystals chosen
so that num_patom != num_satom/2, full and compact force constants, dense and
sparse shortest vectors (int64 / intc variants), Wang and Gonze-Lee NAC ...
through a proxy of the extension module that stores, for every call, deep
copies of the arguments before the call.  Those argument tuples are the
"well-formed inputs the Python layer can pass" of the property.

`replay(call, phonoc)` calls the real kernel again with fresh copies of the
arguments, every array embedded in a larger buffer whose guard zones carry a
canary pattern, and returns digests of all arrays after the call.
"""
from __future__ import annotations

import hashlib
import io
import contextlib
import sys
import types
import warnings

import numpy as np

KERNELS = [
    "transform_dynmat_to_fc", "perm_trans_symmetrize_fc", "perm_trans_symmetrize_compact_fc",
    "transpose_compact_fc", "dynamical_matrices_with_dd_openmp_over_qpoints", "recip_dipole_dipole",
    "recip_dipole_dipole_q0", "derivative_dynmat", "thermal_properties", "distribute_fc2",
    "compute_permutation", "gsv_set_smallest_vectors_sparse", "gsv_set_smallest_vectors_dense",
    "tetrahedra_relative_grid_address", "all_tetrahedra_relative_grid_address",
    "tetrahedra_integration_weight", "tetrahedra_integration_weight_at_omegas", "tetrahedra_frequencies",
    "tetrahedron_method_dos",
]

# positions of the arrays each kernel is allowed to write (everything else is `const`
# in c/phonopy.h and must come back unchanged)
OUTPUTS = {
    "transform_dynmat_to_fc": [0],
    "perm_trans_symmetrize_fc": [0],
    "perm_trans_symmetrize_compact_fc": [0],
    "transpose_compact_fc": [0],
    "dynamical_matrices_with_dd_openmp_over_qpoints": [0],
    "recip_dipole_dipole": [0],
    "recip_dipole_dipole_q0": [0],
    "derivative_dynmat": [0],
    "thermal_properties": [0],
    "distribute_fc2": [0],
    "compute_permutation": [0],
    "gsv_set_smallest_vectors_sparse": [0, 1],
    "gsv_set_smallest_vectors_dense": [0, 1],
    "tetrahedra_relative_grid_address": [0],
    "all_tetrahedra_relative_grid_address": [0],
    "tetrahedra_integration_weight": [],
    "tetrahedra_integration_weight_at_omegas": [0],
    "tetrahedra_frequencies": [0],
    "tetrahedron_method_dos": [0],
}


# position of the kernel's own `use_openmp` argument (result must not depend on it)
USE_OPENMP_FLAG = {"transform_dynmat_to_fc": 8, "recip_dipole_dipole": 12, "recip_dipole_dipole_q0": 7,
                   "derivative_dynmat": 16}


# --------------------------------------------------------------------------
# recording proxy
# --------------------------------------------------------------------------
class Recorder:
    def __init__(self, real):
        self.real = real
        self.calls = []
        self.tag = ""
        self.limit_per_kernel = {}
        self.seen = {}

    def wrap(self, name):
        fn = getattr(self.real, name)
        rec = self

        def wrapper(*args):
            key = (name, rec.tag)
            n = rec.seen.get(key, 0)
            rec.seen[key] = n + 1
            cap = rec.limit_per_kernel.get(name, 3)
            if n < cap:
                a = [np.array(x, copy=True, order="K") if isinstance(x, np.ndarray) else x for x in args]
                meta = [dict(shape=list(x.shape), dtype=str(x.dtype), c=bool(x.flags.c_contiguous),
                             aligned=bool(x.flags.aligned)) if isinstance(x, np.ndarray) else None for x in args]
                rec.calls.append(dict(kernel=name, tag=rec.tag, args=a, meta=meta, ordinal=n))
            return fn(*args)

        return wrapper


def install_recorder():
    import phonopy
    import phonopy._phonopy as real

    rec = Recorder(real)
    proxy = types.ModuleType("phonopy._phonopy")
    for nm in dir(real):
        if nm.startswith("__"):
            continue
        if nm in KERNELS:
            setattr(proxy, nm, rec.wrap(nm))
        else:
            setattr(proxy, nm, getattr(real, nm))
    sys.modules["phonopy._phonopy"] = proxy
    phonopy._phonopy = proxy
    return rec, real


def uninstall_recorder(real):
    import phonopy

    sys.modules["phonopy._phonopy"] = real
    phonopy._phonopy = real


# --------------------------------------------------------------------------
# crystals and a pair-spring force field (inputs only; nothing is judged here)
# --------------------------------------------------------------------------
def _cell(symbols, frac, lattice, masses=None):
    from phonopy.structure.atoms import PhonopyAtoms

    return PhonopyAtoms(symbols=symbols, scaled_positions=np.array(frac, dtype=float), cell=np.array(lattice, dtype=float),
                        masses=masses)


def crystals(rng):
    """name -> dict(unitcell, supercell_matrix, primitive_matrix, nac)"""
    a = 4.0 + 0.3 * rng.random()
    out = {}
    # rock salt conventional cell, species interleaved; F-centred primitive: num_patom=2, num_satom=8
    conv = _cell(["Na", "Cl", "Na", "Cl", "Na", "Cl", "Na", "Cl"],
                 [[0, 0, 0], [.5, 0, 0], [0, .5, .5], [.5, .5, .5], [.5, 0, .5], [0, 0, .5], [.5, .5, 0], [0, .5, 0]],
                 np.eye(3) * a)
    born = np.zeros((2, 3, 3))
    born[0] = np.eye(3) * 1.1
    born[1] = -np.eye(3) * 1.1
    out["nacl_F"] = dict(unitcell=conv, supercell_matrix=np.eye(3, dtype=int), primitive_matrix="F",
                         nac=dict(born=born, dielectric=np.eye(3) * 2.4, factor=14.4))
    # triclinic, three atoms of two species interleaved, supercell det 3 (non-diagonal): 3 vs 9 atoms
    L = np.array([[3.9, 0.2, 0.1], [0.5, 4.3, 0.3], [0.2, 0.6, 4.9]]) + 0.05 * rng.random((3, 3))
    tri = _cell(["Si", "O", "Si"], [[0, 0, 0], [.25, .5, .25], [.5, .25, .75]], L, masses=[28.0, 16.0, 28.5])
    out["tric3"] = dict(unitcell=tri, supercell_matrix=[[1, 1, 0], [-1, 2, 0], [0, 0, 1]], primitive_matrix=None, nac=None)
    # polar tetragonal AB, supercell 2x2x1: 2 vs 8 atoms, anisotropic dielectric tensor and Born charges
    tet = _cell(["Ti", "O"], [[0, 0, 0], [.5, .5, .27]], np.diag([3.8, 3.8, 4.4]))
    bt = np.zeros((2, 3, 3))
    bt[0] = np.diag([2.1, 2.1, 2.6])
    bt[1] = -bt[0]
    out["tetAB"] = dict(unitcell=tet, supercell_matrix=np.diag([2, 2, 1]), primitive_matrix=None,
                        nac=dict(born=bt, dielectric=np.diag([3.1, 3.1, 2.7]), factor=14.4))
    # wurtzite-like hexagonal, four atoms, supercell 3x1x1 (needle): 4 vs 12 atoms
    ah, ch = 3.2, 5.2
    hexl = np.array([[ah, 0, 0], [-ah / 2, ah * np.sqrt(3) / 2, 0], [0, 0, ch]])
    wz = _cell(["Al", "Al", "N", "N"], [[1 / 3, 2 / 3, 0], [2 / 3, 1 / 3, .5], [1 / 3, 2 / 3, .375], [2 / 3, 1 / 3, .875]], hexl)
    out["wz"] = dict(unitcell=wz, supercell_matrix=np.diag([3, 1, 1]), primitive_matrix=None, nac=None)
    # --- cells whose primitive-atom images are NOT one consecutive block in supercell order ---
    # interleaved rock salt, 2x1x1 supercell of the conventional cell with the F primitive cell:
    # s2p = [0,0,2,2,0,0,2,2,...], p2s = [0,2] (not a prefix)
    out["nacl_F2"] = dict(unitcell=conv, supercell_matrix=np.diag([2, 1, 1]), primitive_matrix="F", nac=None)
    # rock salt with grouped species (Na x4, Cl x4) and F: p2s = [0,4]
    convg = _cell(["Na"] * 4 + ["Cl"] * 4,
                  [[0, 0, 0], [0, .5, .5], [.5, 0, .5], [.5, .5, 0], [.5, .5, .5], [.5, 0, 0], [0, .5, 0], [0, 0, .5]],
                  np.eye(3) * a)
    out["naclg_F"] = dict(unitcell=convg, supercell_matrix=np.eye(3, dtype=int), primitive_matrix="F",
                          nac=dict(born=born, dielectric=np.eye(3) * 2.4, factor=14.4))
    # CsCl-like cell made body-centred by two interleaved species pairs: A B A' B' with I centring
    bcc = _cell(["Na", "Cl", "Na", "Cl"], [[0, 0, 0], [.5, .5, 0], [.5, .5, .5], [0, 0, .5]], np.diag([a, a, a]))
    out["ab_I"] = dict(unitcell=bcc, supercell_matrix=np.diag([1, 1, 2]), primitive_matrix="I", nac=None)
    # non-diagonal supercell (det 2) of the two-atom polar cell
    # --- MORE atoms in the primitive cell than lattice points in the supercell (p2s = [0, N, 2N, ...] then has
    # entries below num_patom), and a supercell that IS the primitive cell (N = 1) ---
    L5 = np.array([[4.1, 0.3, 0.2], [0.4, 4.6, 0.1], [0.3, 0.5, 5.2]]) + 0.04 * rng.random((3, 3))
    low5 = _cell(["Si", "O", "Al", "O", "Si"],
                 [[0.02, 0.03, 0.01], [.27, .48, .22], [.52, .21, .71], [.74, .77, .43], [.13, .66, .84]], L5,
                 masses=[28.0, 16.0, 27.0, 16.5, 28.5])
    out["low5_211"] = dict(unitcell=low5, supercell_matrix=np.diag([2, 1, 1]), primitive_matrix=None, nac=None)
    out["low5_111"] = dict(unitcell=low5, supercell_matrix=np.eye(3, dtype=int), primitive_matrix=None, nac=None)
    low7 = _cell(["Si", "O", "Al", "O", "Si", "N", "O"],
                 [[0.02, 0.03, 0.01], [.27, .48, .22], [.52, .21, .71], [.74, .77, .43], [.13, .66, .84], [.61, .58, .09],
                  [.38, .12, .47]], L5 * 1.15, masses=[28.0, 16.0, 27.0, 16.5, 28.5, 14.0, 17.0])
    out["low7_113"] = dict(unitcell=low7, supercell_matrix=np.diag([1, 1, 3]), primitive_matrix=None, nac=None)
    out["tetAB_nd"] = dict(unitcell=tet, supercell_matrix=[[1, 1, 0], [-1, 1, 0], [0, 0, 1]], primitive_matrix=None,
                           nac=dict(born=bt, dielectric=np.diag([3.1, 3.1, 2.7]), factor=14.4))
    return out


def spring_forces(supercell, displacements, rng_seed=0, cutoff=0.62):
    """Forces of a harmonic pair-spring model on the supercell with minimum-image
    pairs (all images at the minimal distance share the spring): F = -Phi u."""
    lat = supercell.cell
    pos = supercell.scaled_positions
    n = len(pos)
    nums = supercell.numbers
    fc = np.zeros((n, n, 3, 3))
    rc = cutoff * np.cbrt(abs(np.linalg.det(lat)) / n) * 2.2
    for i in range(n):
        for j in range(n):
            if i == j:
                continue
            d0 = pos[j] - pos[i]
            d0 -= np.rint(d0)
            best = []
            for t in np.ndindex(3, 3, 3):
                d = (d0 + np.array(t) - 1) @ lat
                best.append((np.linalg.norm(d), d))
            m = min(b[0] for b in best)
            if m > rc:
                continue
            im = [b[1] for b in best if b[0] < m + 1e-6]
            kR = 2.0 + 0.37 * ((nums[i] * nums[j]) % 7)
            kT = 0.3 + 0.05 * ((nums[i] + nums[j]) % 5)
            for d in im:
                fc[i, j] -= (kT * np.eye(3) + kR * np.outer(d, d) / (m * m)) / len(im)
    for i in range(n):
        fc[i, i] = -fc[i].sum(axis=0) + fc[i, i]
    fc = (fc + fc.transpose(1, 0, 3, 2)) / 2
    forces = -np.einsum("ijab,njb->nia", fc, displacements)
    return forces, fc


QUICK_CONFIGS = [
    ("tric3", True, False, None), ("tric3", False, True, None),
    ("tetAB", True, True, "wang"), ("tetAB", False, False, "gonze"),
    ("nacl_F", False, True, None), ("nacl_F", True, False, "wang"),
    ("nacl_F2", True, False, None), ("nacl_F2", True, True, None),
    ("naclg_F", True, False, "gonze"), ("ab_I", False, False, None), ("ab_I", True, True, None),
    ("tetAB_nd", True, True, None),
    ("low5_211", True, False, None), ("low5_211", False, True, None),
    ("low7_113", True, False, None), ("low7_113", True, True, None),
    ("low5_111", True, False, None), ("low5_111", False, True, None),
]


def configs(tier, cs):
    if tier == "quick":
        return QUICK_CONFIGS
    out = []
    for cname, c in cs.items():
        for dense in (True, False):
            for compact in (False, True):
                for nacm in ([None, "wang", "gonze"] if c["nac"] is not None else [None]):
                    out.append((cname, dense, compact, nacm))
    return out


def drive(rec, seed=0, tier="quick"):
    """Exercise the Python layer so that every kernel is called with the shapes it produces."""
    from phonopy import Phonopy
    from phonopy.harmonic.dynmat_to_fc import DynmatToForceConstants
    from phonopy.harmonic.force_constants import show_drift_force_constants
    from phonopy.structure.tetrahedron_method import TetrahedronMethod, get_all_tetrahedra_relative_grid_address
    from phonopy.phonon.tetrahedron_mesh import TetrahedronMesh

    rng = np.random.default_rng(seed)
    cs = crystals(rng)
    notes = {}
    for (cname, dense, compact, nacm) in configs(tier, cs):
        c = cs[cname]
        tag = "%s|%s|%s|%s" % (cname, "dense" if dense else "sparse", "compact" if compact else "full", nacm or "nonac")
        rec.tag = tag
        with warnings.catch_warnings(), contextlib.redirect_stdout(io.StringIO()):
            warnings.simplefilter("ignore")
            ph = Phonopy(c["unitcell"], supercell_matrix=c["supercell_matrix"],
                         primitive_matrix=c["primitive_matrix"], store_dense_svecs=dense, log_level=0)
            ph.generate_displacements(distance=0.03)
            dsets = []
            for d in ph.dataset["first_atoms"]:
                u = np.zeros((len(ph.supercell), 3))
                u[d["number"]] = d["displacement"]
                dsets.append(u)
            forces, _fc_model = spring_forces(ph.supercell, np.array(dsets))
            ph.forces = forces
            ph.produce_force_constants(calculate_full_force_constants=not compact, show_drift=False)
            ph.symmetrize_force_constants(level=1 + ((seed + len(notes)) % 2), show_drift=False)
            if compact:
                show_drift_force_constants(ph.force_constants, primitive=ph.primitive, values_only=True)
            if nacm:
                nac = dict(c["nac"])
                nac["method"] = nacm
                ph.nac_params = nac
            qs = [[0, 0, 0], [0.5, 0, 0], [0.25, 0.25, 0], list(rng.random(3) - 0.5), list(rng.random(3) - 0.5)]
            ph.run_qpoints(qs, with_eigenvectors=True, with_group_velocities=True,
                           nac_q_direction=[1, 0, 0] if nacm else None)
            ph.run_mesh([3, 3, 2], with_eigenvectors=True, is_mesh_symmetry=True)
            ph.run_thermal_properties(t_min=0, t_max=600, t_step=150)
            if len(notes) % 2 == 0:
                # classical statistics (the kernel's `classical` flag)
                ph.run_thermal_properties(t_min=0, t_max=600, t_step=150, classical=True)
            # the kernels' own use_openmp flag OFF and ON, with and without NAC / q-direction
            from phonopy.harmonic.derivative_dynmat import DerivativeOfDynamicalMatrix
            from phonopy.harmonic.dynamical_matrix import get_dynamical_matrix

            for omp_flag in (False, True):
                dmx = get_dynamical_matrix(ph.force_constants, ph.supercell, ph.primitive,
                                           nac_params=(dict(c["nac"], method=nacm) if nacm else None),
                                           use_openmp=omp_flag)
                ddm = DerivativeOfDynamicalMatrix(dmx)
                ddm.run(np.array([0.11, 0.23, -0.37]))
                if nacm:
                    ddm.run(np.array([0.0, 0.0, 0.0]), q_direction=np.array([1.0, 0.5, 0.0]))
            ph.run_total_dos(use_tetrahedron_method=True, freq_pitch=(2.0 + rng.random()))
            if nacm == "gonze":
                # Gonze-Lee dipole-dipole kernels with their own use_openmp flag ON, at the points where
                # K = G + q vanishes (q = 0 and q = a reciprocal lattice point) WITH a q-direction, and at a
                # general q-point: each under its own tag so that none is merged away as a duplicate shape
                from phonopy.harmonic.dynamical_matrix import DynamicalMatrixGL

                nac = dict(c["nac"])
                for full_terms, omp_flag in ((False, True), (True, True), (True, False)):
                    gl = DynamicalMatrixGL(ph.supercell, ph.primitive, ph.force_constants, nac_params=nac,
                                           with_full_terms=full_terms, use_openmp=omp_flag)
                    tag0 = tag
                    tag = tag0 + ("" if omp_flag else "|noomp")
                    rec.tag = "%s|GL%s setup" % (tag, "full" if full_terms else "")
                    gl.make_Gonze_nac_dataset()
                    for label, q, qd in (("q0", [0.0, 0, 0], [1.0, 0, 0]), ("qG", [1.0, 0, 0], [0.0, 1, 0.5]),
                                         ("qG2", [0.0, -1, 1], [1.0, 1, 0]), ("qgen", [0.13, 0.27, -0.31], None)):
                        rec.tag = "%s|GL%s %s" % (tag, "full" if full_terms else "", label)
                        gl.run(np.array(q), q_direction=None if qd is None else np.array(qd))
                    tag = tag0
                rec.tag = tag
            if nacm is None:
                ph.run_mesh([2, 2, 2], with_eigenvectors=True, is_mesh_symmetry=False)
                ph.run_projected_dos(use_tetrahedron_method=True, freq_pitch=3.0)
                # dynamical matrices at commensurate points -> force constants
                d2f = DynmatToForceConstants(ph.primitive, ph.supercell, is_full_fc=not compact)
                ph.run_qpoints(d2f.commensurate_points, with_eigenvectors=True, with_dynamical_matrices=False)
                qd = ph.get_qpoints_dict()
                d2f.create_dynamical_matrices(eigenvalues=(qd["frequencies"] / ph.unit_conversion_factor) ** 2
                                              * np.sign(qd["frequencies"]), eigenvectors=qd["eigenvectors"])
                d2f.run()
                d2f_omp = DynmatToForceConstants(ph.primitive, ph.supercell, is_full_fc=not compact, use_openmp=True)
                d2f_omp.dynamical_matrices = d2f.dynamical_matrices
                d2f_omp.run()
                # tetrahedron mesh (tetrahedra_frequencies)
                ph.run_mesh([3, 3, 2], is_mesh_symmetry=True)
                md = ph.mesh
                thm = TetrahedronMesh(ph.primitive, md.frequencies, md.mesh_numbers,
                                      np.array(md.grid_address, dtype="int64"),
                                      np.array(md.grid_mapping_table, dtype="int64"), md.ir_grid_points)
                thm.set(value="I", frequency_points=np.linspace(0.5, 8, 4))
                for _ in thm:
                    break
        notes[tag] = dict(num_patom=len(ph.primitive), num_satom=len(ph.supercell))
    # shortest vectors of near-tie structures (noise around the tolerance, two tolerances), dense and sparse
    from phonopy.structure.cells import ShortestPairs

    for st in neartie_structures(seed, tier):
        if tier == "quick" and st["crystal"] != "tetAB221" and st["noise"] not in (0, 3, 5, 6):
            continue
        for dense in (True, False):
            rec.tag = "neartie|%s|%s" % (st["label"], "dense" if dense else "sparse")
            with warnings.catch_warnings():
                warnings.simplefilter("ignore")
                ShortestPairs(st["bases"], st["spos"], st["ppos"], store_dense_svecs=dense, symprec=st["symprec"])
    # kernels that are only reached through the structure-level helpers
    rec.tag = "tetrahedron"
    with warnings.catch_warnings():
        warnings.simplefilter("ignore")
        get_all_tetrahedra_relative_grid_address()
        for k in range(3):
            tm = TetrahedronMethod(np.linalg.inv(cs["tric3"]["unitcell"].cell) if k == 0 else
                                   np.linalg.inv(cs["wz"]["unitcell"].cell) if k == 1 else None, mesh=[4, 3 + k, 2])
            om = rng.random((24, 4)) * 3 + 1
            tm.set_tetrahedra_omegas(om)
            tm.run(np.linspace(0.5, 4.5, 7), value="I")
            tm.run(np.linspace(0.5, 4.5, 5), value="J")
            tm.run(float(2.0 + 0.1 * k), value="I")
            tm.run(float(2.5 + 0.1 * k), value="J")
        # large, nearly orthogonal cells on fine meshes: the microzone diagonals differ by ~1e-9 in squared length
        # (relative 1e-4, far above rounding); every one of the four main diagonals is the shortest for some sign
        # pattern of the off-diagonal metric, and the kernel must still pick the one the reference picks (seed c13-8)
        for k in range(12):
            sg = [(1, 1, 1), (-1, 1, 1), (1, -1, 1), (1, 1, -1)][k % 4]
            off = (0.002 + 0.004 * rng.random(3)) * np.array(sg)
            cell = np.eye(3) * (11.0 + k % 3) + np.array([[0, off[0], off[1]], [off[0], 0, off[2]], [off[1], off[2], 0]])
            rec.tag = "tetrahedron-fine|%d" % k  # own tag: the recorder keeps 3 calls per (kernel, tag)
            TetrahedronMethod(np.linalg.inv(cell), mesh=[48 + 16 * (k % 2)] * 3)
    return notes


def record(seed=0, tier="quick"):
    rec, real = install_recorder()
    try:
        notes = drive(rec, seed, tier)
    finally:
        uninstall_recorder(real)
    return rec.calls, notes


# --------------------------------------------------------------------------
# variants of a recorded call: same shapes / index maps / geometry, free data
# arrays replaced by random values (the property quantifies over every
# well-formed input, not only over physically symmetric force constants)
# --------------------------------------------------------------------------
FREE_DATA = {
    "transform_dynmat_to_fc": [0, 1],
    "perm_trans_symmetrize_fc": [0],
    "perm_trans_symmetrize_compact_fc": [0],
    "transpose_compact_fc": [0],
    "dynamical_matrices_with_dd_openmp_over_qpoints": [2, 10, 14],
    "recip_dipole_dipole": [0, 1, 5],
    "recip_dipole_dipole_q0": [0, 2],
    "derivative_dynmat": [1, 11],
    "thermal_properties": [0, 2],
    "distribute_fc2": [0],
    "compute_permutation": [],
    "gsv_set_smallest_vectors_sparse": [0],
    "gsv_set_smallest_vectors_dense": [],
    "tetrahedra_relative_grid_address": [],
    "all_tetrahedra_relative_grid_address": [],
    "tetrahedra_integration_weight": [1],
    "tetrahedra_integration_weight_at_omegas": [0, 2],
    "tetrahedra_frequencies": [0, 6],
    "tetrahedron_method_dos": [0, 3, 4],
}


def randomized(call, rng):
    """Copy of `call` with the free data arrays replaced by random numbers."""
    k = call["kernel"]
    args = []
    for i, x in enumerate(call["args"]):
        if isinstance(x, np.ndarray) and i in FREE_DATA[k] and x.dtype.kind == "f" and x.size > 1:
            if k == "thermal_properties" and i == 2:
                v = np.abs(rng.normal(size=x.shape)) * 0.03 + 1e-3
                v.reshape(-1)[:: 7] *= -1  # imaginary modes are passed as negative numbers
            elif k.startswith("tetra") and i in (1, 2, 3, 6) and k != "tetrahedron_method_dos":
                v = rng.random(size=x.shape) * 4 + 0.5
            elif k == "tetrahedron_method_dos" and i == 3:
                v = rng.random(size=x.shape) * 4 + 0.5
            else:
                v = rng.normal(size=x.shape)
            args.append(np.array(v, dtype=x.dtype, order="C"))
        else:
            args.append(x)
    c = dict(call)
    c["args"] = args
    c["variant"] = "random"
    return c


# --------------------------------------------------------------------------
# replay with guard zones
# --------------------------------------------------------------------------
PAD = 64  # guard elements on either side of every array
CANARY = {"f": 0.7853981633974483, "i": 0x5A5A5A5A}  # ordinary magnitude: `+=` of a typical value changes it


def guarded(arr):
    """Copy of arr placed in the middle of a larger buffer filled with a canary."""
    if arr.dtype.kind == "c":
        base = arr.view("double")
        g, buf = guarded(np.ascontiguousarray(base))
        return g.view(arr.dtype) if False else g, buf
    n = arr.size
    kind = "f" if arr.dtype.kind == "f" else "i"
    buf = np.empty(n + 2 * PAD, dtype=arr.dtype)
    buf[:] = CANARY[kind] if kind == "f" else np.array(CANARY["i"]).astype(arr.dtype)
    view = buf[PAD:PAD + n].reshape(arr.shape)
    view[...] = arr
    return view, buf


def guards_intact(buf, n):
    kind = "f" if buf.dtype.kind == "f" else "i"
    c = CANARY[kind] if kind == "f" else np.array(CANARY["i"]).astype(buf.dtype)
    return bool((buf[:PAD] == c).all() and (buf[PAD + n:] == c).all())


def digest(a):
    return hashlib.blake2b(np.ascontiguousarray(a).tobytes(), digest_size=8).hexdigest()


def replay(call, phonoc, use_guards=True):
    """-> dict(out=[arrays after the call], ret, guards_ok, err)"""
    args = []
    bufs = []
    for x in call["args"]:
        if isinstance(x, np.ndarray):
            if use_guards and x.flags.c_contiguous and x.dtype.kind in "fi":
                v, b = guarded(x)
                args.append(v)
                bufs.append((b, x.size))
            else:
                args.append(np.array(x, copy=True, order="K"))
                bufs.append(None)
        else:
            args.append(x)
            bufs.append(None)
    err = None
    ret = None
    try:
        ret = getattr(phonoc, call["kernel"])(*args)
    except Exception as e:  # the spec expects success on recorded inputs
        err = "%s: %s" % (type(e).__name__, e)
    ok = all(guards_intact(b[0], b[1]) for b in bufs if b is not None)
    return dict(out=[a if isinstance(a, np.ndarray) else None for a in args], ret=ret, guards_ok=ok, err=err)


def scalar_sig(x):
    if isinstance(x, np.ndarray):
        return None
    if isinstance(x, (bool, np.bool_)):
        return bool(x)
    if isinstance(x, (int, np.integer)):
        return int(x)
    if isinstance(x, str):
        return x
    return "f"


def select_cases(calls, rng, per_kernel=6, per_kernel_random=3):
    """Deduplicate recorded calls by (kernel, crystal, shapes, dtypes, flags); keep a
    bounded number per kernel; add randomised variants."""
    def weight(c):
        # larger argument tuples first, then the ones with fewer zero entries (a list of general
        # q-points before the single Gamma-point calls the Python layer also makes: at Gamma the
        # phase factors are all 1 and index errors are invisible)
        arrs = [x for x in c["args"] if isinstance(x, np.ndarray)]
        return (sum(x.size for x in arrs), sum(int(np.count_nonzero(x)) for x in arrs if x.dtype.kind == "f"))

    best = {}
    order_keys = []
    for c in calls:
        key = (c["kernel"], c["tag"], tuple(str(m) for m in c["meta"]), tuple(scalar_sig(x) for x in c["args"]))
        if key not in best:
            best[key] = c
            order_keys.append(key)
        elif weight(c) > weight(best[key]):
            best[key] = c
    by = {}
    for key in order_keys:
        by.setdefault(key[0], []).append(best[key])
    cases = []
    for k in KERNELS:
        lst = by.get(k, [])
        # spread over the crystals / variants: round-robin over tags
        tags = {}
        for c in lst:
            tags.setdefault(c["tag"], []).append(c)
        # within one configuration the larger argument tuples first (lists of q-points
        # before the single Gamma-point calls the Python layer also makes)
        for t in tags:
            tags[t].sort(key=lambda c: tuple(-w for w in weight(c)))
        order = []
        while any(tags.values()):
            for t in list(tags):
                if tags[t]:
                    order.append(tags[t].pop(0))
        # every class of the coverage requirements of KernelRuns.tla (non-contiguous images, non-prefix
        # p2s map, vanishing K with direction, flag values) gets its share: round-robin over the classes
        def klass(c):
            f = index_map_facts(c)
            # (the fine-mesh lattices are a class of their own, or the thorough tier's many coarse-mesh calls of
            # the same kernel would crowd them out of the per-kernel budget)
            return (c["tag"].startswith("tetrahedron-fine"), f["gllimit"], f["noncontig"], f["p2sprefix"], shape_class(c),
                    tuple(scalar_sig(x) for x in c["args"] if not isinstance(x, np.ndarray) and scalar_sig(x) != "f"))

        byc = {}
        for c in order:
            byc.setdefault(klass(c), []).append(c)
        order = []
        while any(byc.values()):
            for kk in list(byc):
                if byc[kk]:
                    order.append(byc[kk].pop(0))
        chosen = order[:per_kernel]
        for c in chosen:
            c = dict(c)
            c["variant"] = "recorded"
            cases.append(c)
        if FREE_DATA[k]:
            for c in order[:per_kernel_random]:
                cases.append(randomized(c, rng))
    for i, c in enumerate(cases):
        c["id"] = i
    return cases


# kernels that take primitive/supercell index maps: (position of the s2p-like map, position of the p2s-like map)
INDEX_MAPS = {
    "transform_dynmat_to_fc": (6, 7),
    "dynamical_matrices_with_dd_openmp_over_qpoints": (7, 8),
    "derivative_dynmat": (8, 9),
    "perm_trans_symmetrize_compact_fc": (2, 3),
    "transpose_compact_fc": (2, 3),
}


# kernels that take both the number of primitive atoms and of supercell atoms: how to read (num_patom, num_satom)
SHAPES = {
    "transform_dynmat_to_fc": lambda a: (a[4].shape[1], a[4].shape[0]),
    "dynamical_matrices_with_dd_openmp_over_qpoints": lambda a: (len(a[8]), len(a[7])),
    "derivative_dynmat": lambda a: (len(a[9]), len(a[8])),
    "perm_trans_symmetrize_compact_fc": lambda a: (a[0].shape[0], a[0].shape[1]),
    "transpose_compact_fc": lambda a: (a[0].shape[0], a[0].shape[1]),
    "gsv_set_smallest_vectors_sparse": lambda a: (len(a[3]), len(a[2])),
    "gsv_set_smallest_vectors_dense": lambda a: (len(a[3]), len(a[2])),
}


def shape_class(call):
    """Relation of the number of primitive atoms to the number N of lattice points of the supercell:
    'lt' (num_patom < N), 'eq', 'gt' (num_patom > N >= 2), 'one' (N = 1); 'na' for other kernels."""
    f = SHAPES.get(call["kernel"])
    if f is None:
        return "na"
    npa, nsa = f(call["args"])
    n = nsa // max(npa, 1)
    if n <= 1:
        return "one"
    return "lt" if npa < n else ("eq" if npa == n else "gt")


def index_map_facts(call):
    """Projection of a case for the coverage requirement of KernelRuns.tla:
    noncontig  - the supercell atoms mapped to some primitive atom are not one consecutive block;
    p2sprefix  - the p2s-like map is 0..n-1."""
    gllimit = False
    if call["kernel"] == "recip_dipole_dipole":
        a = call["args"]
        # K = G + q vanishes for some G, a q-direction is given, the kernel's own OpenMP flag is on
        kmin = np.sqrt(((a[2] + a[3]) ** 2).sum(axis=1)).min()
        gllimit = bool(kmin < a[11] and not a[8] and a[12])
    pos = INDEX_MAPS.get(call["kernel"])
    if pos is None:
        return dict(indexmaps=False, noncontig=False, p2sprefix=True, gllimit=gllimit)
    s2p = [int(x) for x in call["args"][pos[0]]]
    p2s = [int(x) for x in call["args"][pos[1]]]
    noncontig = False
    for v in set(s2p):
        ks = [k for k, x in enumerate(s2p) if x == v]
        if ks[-1] - ks[0] + 1 != len(ks):
            noncontig = True
    return dict(indexmaps=True, noncontig=noncontig, p2sprefix=(p2s == list(range(len(p2s)))), gllimit=False)


# --------------------------------------------------------------------------
# near-tie structures for the shortest-vector kernels: equidistant images made
# unequal by positional / lattice noise around the tolerance
# --------------------------------------------------------------------------
NOISE_FACTORS = [0.0, 0.01, 0.03, 0.1, 0.3, 1.0, 3.0]  # x symprec (Cartesian length); 0 = the exact crystal
SYMPRECS = [1e-5, 1e-3]


def neartie_structures(seed=0, tier="quick"):
    """-> list of dict(label, crystal, noise (index into NOISE_FACTORS), symprec, bases, spos, ppos)"""
    from phonopy.structure.cells import get_primitive, get_supercell

    rng = np.random.default_rng(seed + 77)
    a = 5.6903014761756712
    nacl = _cell(["Na"] * 4 + ["Cl"] * 4,
                 [[0, 0, 0], [0, .5, .5], [.5, 0, .5], [.5, .5, 0], [.5, .5, .5], [.5, 0, 0], [0, .5, 0], [0, 0, .5]],
                 np.eye(3) * a)
    tet = _cell(["Ti", "O"], [[0, 0, 0], [.5, .5, .27]], np.diag([3.8, 3.8, 4.4]))
    specs = [("nacl222F", nacl, np.diag([2, 2, 2]), [[0, .25, .25], [.25, 0, .25], [.25, .25, 0]]),
             ("tetAB221", tet, np.diag([2, 2, 1]), np.diag([.5, .5, 1.0]))]
    if tier != "quick":
        specs.append(("nacl111F", nacl, np.eye(3, dtype=int), "F"))
    out = []
    for cname, uc, smat, pmat in specs:
        sc = get_supercell(uc, smat)
        pc = get_primitive(sc, pmat)
        p2s = pc.p2s_map
        scale = float(np.cbrt(abs(np.linalg.det(sc.cell)) / len(sc)))
        for si, symprec in enumerate(SYMPRECS):
            for ni, fac in enumerate(NOISE_FACTORS):
                amp = fac * symprec
                spos = sc.scaled_positions + rng.uniform(-1, 1, size=(len(sc), 3)) * amp / np.linalg.norm(sc.cell, axis=1)
                bases = sc.cell * (1.0 + rng.uniform(-1, 1, size=(3, 3)) * amp / (10 * scale) * (ni % 2))
                out.append(dict(label="%s|n%d|s%d" % (cname, ni, si), crystal=cname, noise=ni, sp=si, symprec=symprec,
                                bases=np.array(bases, dtype="double", order="C"),
                                spos=np.array(spos, dtype="double", order="C"),
                                ppos=np.array(spos[p2s], dtype="double", order="C")))
    return out


def gsv_arguments(st, longdtype):
    """The arrays the Python layer (ShortestPairs._transform_cell_basis) hands to the gsv kernels."""
    from phonopy.structure.cells import ShortestPairs

    sp = object.__new__(ShortestPairs)
    sp._supercell_bases = st["bases"]
    sp._supercell_pos = st["spos"]
    sp._primitive_pos = st["ppos"]
    sp._symprec = st["symprec"]
    lp, sf, pf, tmi, rb = sp._transform_cell_basis(longdtype)
    return (np.array(sf, dtype="double", order="C"), np.array(pf, dtype="double", order="C"),
            np.array(lp, dtype=longdtype, order="C"), np.array(rb.T, dtype="double", order="C"),
            np.array(tmi.T, dtype=longdtype, order="C"))


BIGPAD = 4096


def _guard_big(arr):
    kind = "f" if arr.dtype.kind == "f" else "i"
    buf = np.empty(arr.size + 2 * BIGPAD, dtype=arr.dtype)
    buf[:] = CANARY[kind] if kind == "f" else np.array(CANARY["i"]).astype(arr.dtype)
    v = buf[BIGPAD:BIGPAD + arr.size].reshape(arr.shape)
    v[...] = arr
    return v, buf


def _guard_ok(buf, n):
    c = CANARY["f"] if buf.dtype.kind == "f" else np.array(CANARY["i"]).astype(buf.dtype)
    return bool((buf[:BIGPAD] == c).all() and (buf[BIGPAD + n:] == c).all())


def two_pass_dense(st, phonoc):
    """The Python layer's protocol for the dense kernel, on guard-padded arrays:
    counting pass (initialize=1) -> allocate sum(count) rows -> filling pass (initialize=0).
    Logged: per pair the count and address of pass 1, per pair the number of rows the filling pass
    writes (the kernel run on that single pair), total rows written by the filling pass into an
    oversized sentinel buffer, allocated rows, guard zones of both passes."""
    sf, pf, lp, rb, tm = gsv_arguments(st, "int64")
    ns, npr = len(sf), len(pf)
    sym = st["symprec"]
    multi, mbuf = _guard_big(np.zeros((ns, npr, 2), dtype="int64"))
    dummy, dbuf = _guard_big(np.zeros((1, 3), dtype="double"))
    phonoc.gsv_set_smallest_vectors_dense(dummy, multi, sf, pf, lp, rb, tm, 1, sym)
    g1 = _guard_ok(mbuf, multi.size) and _guard_ok(dbuf, 3) and bool((dummy == 0).all())
    count1 = [int(x) for x in multi[:, :, 0].ravel()]
    addr1 = [int(x) for x in multi[:, :, 1].ravel()]
    ok_counts = all(0 <= c <= len(lp) for c in count1)
    alloc = int(sum(count1)) if ok_counts else 0
    # filling pass exactly as the Python layer allocates it
    sv, sbuf = _guard_big(np.zeros((max(alloc, 0), 3), dtype="double"))
    m2 = np.array(multi, copy=True)
    phonoc.gsv_set_smallest_vectors_dense(sv, m2, sf, pf, lp, rb, tm, 0, sym)
    g2 = _guard_ok(sbuf, sv.size) and bool(np.array_equal(m2, multi))
    # rows the filling pass writes: oversized buffer pre-filled with a sentinel
    big = np.full((len(lp) * ns * npr + 8, 3), np.nan)
    phonoc.gsv_set_smallest_vectors_dense(big, np.array(multi, copy=True), sf, pf, lp, rb, tm, 0, sym)
    filltotal = int((~np.isnan(big[:, 0])).sum())
    fill2 = []
    for i in range(ns):
        for j in range(npr):
            one = np.full((len(lp) + 2, 3), np.nan)
            phonoc.gsv_set_smallest_vectors_dense(one, np.zeros((1, 1, 2), dtype="int64"),
                                                  np.array(sf[i:i + 1], order="C"), np.array(pf[j:j + 1], order="C"),
                                                  lp, rb, tm, 0, sym)
            fill2.append(int((~np.isnan(one[:, 0])).sum()))
    return dict(label=st["label"], crystal=st["crystal"], noise=st["noise"], sp=st["sp"], count1=count1, addr1=addr1,
                fill2=fill2, filltotal=filltotal, alloc=alloc, guards1=bool(g1), guards2=bool(g2))
