"""C12 helper: run the kernel-cell replay (harness/props/c12.py: kernel_cells) in the build of the extension
selected by VERIF_EXT_VARIANT and print the recorded cells as one JSON line (read by kernel_cells_part)."""
import json
import os
import sys


def main():
    from harness.props import c12          # sets OMP_NUM_THREADS, builds / loads the extension of this variant
    from harness import core
    build = os.environ.get("VERIF_EXT_VARIANT", "omp")
    ctx = core.Ctx("C12", os.environ.get("VERIF_TIER", "quick"), int(os.environ.get("VERIF_SEED", "0") or 0))
    ctx.known = []
    cells = c12.kernel_cells(ctx, build)
    out = dict(cells=cells, violations=[dict(key=v["key"], what=v["what"], detail=v["detail"]) for v in ctx.violations],
               evaluations=ctx.evaluations, states=ctx.states)
    print("C12VARIANT " + json.dumps(core.jsonable(out)))
    return 0


if __name__ == "__main__":
    sys.exit(main())
