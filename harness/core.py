"""Shared run context of every property check: tier/seed, TLC bookkeeping,
violations vs known findings, replay files, evidence."""
from __future__ import annotations

import hashlib
import json
import os
import random
import sys
import time
import traceback

from . import tlc as tlcmod

VERIF = os.path.dirname(os.path.dirname(os.path.abspath(__file__)))


def jsonable(x):
    import numpy as np

    if isinstance(x, dict):
        return {str(k): jsonable(v) for k, v in x.items()}
    if isinstance(x, (list, tuple, set, frozenset)):
        return [jsonable(v) for v in (sorted(x, key=repr) if isinstance(x, (set, frozenset)) else x)]
    if isinstance(x, np.ndarray):
        return jsonable(x.tolist())
    if isinstance(x, (np.integer,)):
        return int(x)
    if isinstance(x, (np.floating,)):
        return float(x)
    if isinstance(x, (np.bool_,)):
        return bool(x)
    if isinstance(x, complex):
        return [x.real, x.imag]
    if isinstance(x, (int, float, str, bool)) or x is None:
        return x
    return repr(x)


class Ctx:
    def __init__(self, pid, tier, seed, replay=None):
        self.pid = pid
        self.tier = tier
        self.seed = seed
        self.replay_path = replay
        self.rng = random.Random(seed)
        self.t0 = time.time()
        self.violations = []
        self.known_hits = []
        self.states = 0
        self.transitions = 0
        self.traces = 0  # behaviours replayed on / traces recorded from the implementation
        self.evaluations = 0
        self.samples = []
        self.tlc_runs = []
        self.extra = {}
        self.assumptions = []
        self.nontrivial = set()
        self.exhaustive = None
        self.rule = ""
        kf = os.path.join(VERIF, "known_findings.json")
        self.known = []
        if os.path.exists(kf):
            with open(kf) as f:
                self.known = [k for k in json.load(f).get("findings", []) if k["property"] == pid]

    @property
    def quick(self):
        return self.tier == "quick"

    # ---- TLC -----------------------------------------------------------
    def tlc(self, module, cfg=None, *, requirement=True, what=None, **kw):
        """Run TLC; account states; a violated invariant is a property violation
        (requirement=True) — unless it matches a known finding."""
        keep = kw.pop("keep", False)
        res = tlcmod.run(module, cfg, keep=True, **kw)
        self.states += res.distinct
        self.transitions += res.generated
        self.tlc_runs.append(dict(module=module, cfg=cfg or "(generated)", **res.summary(),
                                  coverage={k: v[1] for k, v in res.coverage.items()} or None))
        if res.violated and requirement:
            key = "tlc:%s:%s" % (module, res.violated)
            self.violation(key, what or ("TLC: %s violated in %s" % (res.violated, module)),
                           dict(module=module, cfg=cfg, violated=res.violated, kind=res.kind,
                                trace=[dict(action=a, state=jsonable(s)) for a, s in res.trace[-6:]]))
        if not keep:
            tlcmod.cleanup(res)
        return res

    # ---- violations ----------------------------------------------------
    def violation(self, key, what, detail=None):
        for k in self.known:
            if k["key"] == key or (k.get("key_prefix") and key.startswith(k["key_prefix"])):
                if k["key"] not in [h["key"] for h in self.known_hits]:
                    self.known_hits.append(k)
                return False
        if any(v["key"] == key for v in self.violations):
            return True
        self.violations.append(dict(key=key, what=what, detail=jsonable(detail)))
        return True

    def binding_demo(self, name, module, cfg_text, mc_text, expect):
        """Demonstrate that the trace specification is bound to what is logged: a deliberately corrupted
        event must be rejected by the invariant `expect`.  A corrupted trace that is accepted is a failure of
        the machinery (the check would be vacuous), not of phonopy."""
        res = tlcmod.run(module, cfg_text=cfg_text, extra_files={module + ".tla": mc_text}, workers=2,
                         extra_args=("-continue",))
        names = sorted(set(n for n, _ in res.violations))
        ok = expect in names
        self.extra.setdefault("binding_demos", []).append(dict(demo=name, expected=expect, rejected_by=names, ok=ok))
        if not ok:
            raise tlcmod.MachineryError("binding demonstration %s: corrupted trace was accepted (expected %s, got %s)"
                                        % (name, expect, names))

    def sample(self, s, cap=6):
        if len(self.samples) < cap:
            self.samples.append(jsonable(s))

    def count(self, case_key=None, n=1):
        self.evaluations += n
        if case_key is not None:
            self.nontrivial.add(case_key if isinstance(case_key, (str, int, tuple)) else repr(case_key))

    # ---- finish ----------------------------------------------------------
    def finish(self):
        wall = time.time() - self.t0
        for k in self.known_hits:
            print("KNOWN-FINDING: property=%s %s" % (self.pid, k["what"]))
        rc = 0
        for v in self.violations:
            rdir = os.path.join(VERIF, "replays", self.pid)
            os.makedirs(rdir, exist_ok=True)
            h = hashlib.blake2b(json.dumps(v, sort_keys=True, default=str).encode(), digest_size=6).hexdigest()
            path = os.path.join(rdir, h + ".json")
            with open(path, "w") as f:
                json.dump(dict(property=self.pid, tier=self.tier, seed=self.seed, **v), f, indent=1, default=str)
            print("VIOLATION property=%s replay=%s" % (self.pid, path))
            print("  " + v["what"])
            rc = 1
        cov = dict(
            states=max(self.states, 0),
            transitions=max(self.transitions, 0),
            traces_validated_against_impl=self.traces,
            samples=self.samples or ["(no sample recorded)"],
            evaluations=self.evaluations,
            distinct_nontrivial=len(self.nontrivial),
            rule=self.rule,
            tlc_runs=self.tlc_runs,
        )
        if self.exhaustive is not None:
            cov["exhaustive"] = self.exhaustive
        cov.update(jsonable(self.extra))
        ev = dict(property_id=self.pid, tier=self.tier, seed=self.seed, level="model_checking",
                  coverage=cov, assumptions=self.assumptions, wall_s=round(wall, 2),
                  violations=len(self.violations),
                  known_findings=[k["key"] for k in self.known_hits])
        # evidence/ describes runs against /repo itself only; a run against a scratch copy (VERIF_REPO, used for
        # seeded changes and candidate repairs) is recorded under .run/ and never replaces a property's evidence.
        alt = os.path.abspath(os.environ.get("VERIF_REPO") or "/repo") != "/repo"
        edir = os.path.join(VERIF, ".run", "evidence-scratch") if alt else os.path.join(VERIF, "evidence")
        os.makedirs(edir, exist_ok=True)
        with open(os.path.join(edir, self.pid + ".json"), "w") as f:
            json.dump(ev, f, indent=1)
        print("%s %s: %s  states=%d transitions=%d impl-traces=%d evaluations=%d wall=%.1fs" % (
            self.pid, self.tier, "OK" if rc == 0 else "VIOLATED", self.states, self.transitions,
            self.traces, self.evaluations, wall))
        return rc


def main(pid, runner, argv=None):
    import argparse

    ap = argparse.ArgumentParser()
    ap.add_argument("--tier", default=os.environ.get("VERIF_TIER", "quick"), choices=["quick", "thorough"])
    ap.add_argument("--replay", default=None)
    a = ap.parse_args(argv)
    seed = int(os.environ.get("VERIF_SEED", "0") or 0)
    ctx = Ctx(pid, a.tier, seed, a.replay)
    try:
        runner(ctx)
    except tlcmod.MachineryError as e:
        print("MACHINERY-FAILURE %s: %s" % (pid, e), file=sys.stderr)
        return 2
    except Exception as e:
        traceback.print_exc()
        # An exception that originates inside phonopy itself (innermost frame under the repository)
        # while the harness drives it along behaviours the unchanged tree executes without error is
        # the implementation leaving the specified behaviour: a violation, not a machinery failure.
        repo = os.path.abspath(os.environ.get("VERIF_REPO", "/repo"))
        tb = traceback.extract_tb(e.__traceback__)
        inner = os.path.abspath(tb[-1].filename) if tb else ""
        if inner.startswith(repo + os.sep):
            ctx.violation("exception:%s:%s" % (type(e).__name__, os.path.relpath(inner, repo)),
                          "phonopy raised %s at %s:%s (%s) where the specification expects a result"
                          % (type(e).__name__, os.path.relpath(inner, repo), tb[-1].lineno, str(e)[:200]),
                          dict(traceback=traceback.format_exception(type(e), e, e.__traceback__)[-6:]))
            return ctx.finish()
        print("MACHINERY-FAILURE %s" % pid, file=sys.stderr)
        return 2
    return ctx.finish()
