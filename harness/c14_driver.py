"""C14 trace recorder: drives the real phonopy API along the configurations that
TLC enumerated for spec/AccessPaths.tla and projects every returned array to the
set of specification tokens it equals (DESIGN 4.3: projection never uses the code
under test to decide what a token means - the no-NAC dynamical matrix is the exact
lattice Fourier sum of the spring-model oracle, eigenvalues come from numpy on that
matrix; with NAC the reference matrix is DynamicalMatrixNAC.run(q, q_direction) of
a separate reference Phonopy object, which is stated as an assumption).

Run as a sub-process, one per build variant:
    VERIF_EXT_VARIANT=omp|serial python -m harness.c14_driver plan.json out.json
"""
from __future__ import annotations

import contextlib
import io
import json
import math
import os
import re
import sys
import tempfile
import time
import warnings

from harness import bootstrap  # noqa: F401  (must be first: builds / locates the extension)

import numpy as np  # noqa: E402

warnings.simplefilter("ignore")

from phonopy import Phonopy  # noqa: E402
import phonopy._phonopy as phonoc  # noqa: E402
from phonopy.phonon.group_velocity import GroupVelocity  # noqa: E402

from harness.oracle import Oracle  # noqa: E402

TOL_D = 1e-9      # relative to max|D|; observed on the unchanged tree <= 1e-14 (GL at Gamma 1e-12)
TOL_L = 1e-9      # eigenvalues, relative to max|lambda|
TOL_GV = 1e-6     # group velocities, relative to max(1,|gv|); same code on the same object: observed <= 1e-12
DECIMALS = 3

CRYSTALS = {
    "tetab": dict(S=[[2, 0, 0], [0, 2, 0], [0, 0, 2]], z=[1.3, -1.3]),
    "tric": dict(S=[[2, 0, 0], [0, 2, 0], [0, 0, 2]], z=[0.9, -1.8, 0.9]),
    "cscl": dict(S=[[2, 0, 0], [0, 2, 0], [0, 0, 2]], z=[1.1, -1.1]),
    "wz": dict(S=[[2, 0, 0], [0, 2, 0], [0, 0, 2]], z=[1.0, 1.0, -1.0, -1.0]),
    "hcp": dict(S=[[2, 0, 0], [0, 2, 0], [0, 0, 2]], z=[0.0, 0.0]),
    "bcc": dict(S=[[2, 0, 0], [0, 2, 0], [0, 0, 2]], z=[0.0, 0.0]),
}


FACTORS = {"vasp": None, "cm": "VaspToCm", "x37": 3.7}


def factor_value(fac):
    from phonopy.units import VaspToTHz, VaspToCm
    return {"vasp": VaspToTHz, "cm": VaspToCm, "x37": 3.7}[fac]


def tok(k, q="-", nt="none", r=False, p="na", o=0, u=None):
    if u is None:
        u = "own" if k in ("F", "GV") else "na"
    return dict(k=k, q=q, nt=nt, r=bool(r), p=p, o=int(o), u=u)


class World:
    """One crystal (catalogue entry) with its Phonopy objects: sigma = (nac, dec)."""

    def __init__(self, entry, seed):
        self.entry = entry
        # "name~neg": the same crystal with force constants of opposite sign - every mode is
        # unstable, so the sign handling of the frequency conversion is exercised on every path
        name, _, flavour = entry.partition("~")
        self.sign = -1.0 if flavour == "neg" else 1.0
        c = CRYSTALS[name]
        self.S = c["S"]
        self.orc = Oracle(name, [self.S], seed=seed)
        self.cell = self.orc.unitcell()
        self.objs = {}
        L = self.orc.L
        ahat = L / np.linalg.norm(L, axis=1)[:, None]
        aniso = 0.15 * np.outer(ahat[2], ahat[2]) + 0.05 * np.outer(ahat[0], ahat[0])
        self.born = np.array([z * (np.eye(3) + aniso) for z in c["z"]])
        self.eps = 2.4 * np.eye(3) + 0.7 * np.outer(ahat[2], ahat[2])
        self.fc = None
        self.nband = 3 * len(self.cell)
        self._cache = {}

    def phonopy(self, nac, dec, ref=False, fac="vasp"):
        key = (nac, dec, ref, fac)
        if key not in self.objs:
            with contextlib.redirect_stdout(io.StringIO()):
                ph = Phonopy(self.cell, supercell_matrix=self.S, primitive_matrix=np.eye(3), log_level=0,
                             factor=factor_value(fac),
                             dynamical_matrix_decimals=(DECIMALS if dec else None))
                if self.fc is None:
                    self.fc = self.sign * self.orc.supercell_fc(self.S, ph.supercell)
                ph.force_constants = self.fc.copy()
                if nac != "none":
                    ph.nac_params = dict(born=self.born.copy(), dielectric=self.eps.copy(), factor=14.4,
                                         method=("wang" if nac == "wang" else "gonze"))
            self.objs[key] = ph
        return self.objs[key]

    # ---- interpretation of the tokens ------------------------------------------------
    def dref(self, nac, q, nt, dirvec):
        """D(q) named by token (nt); unrounded."""
        key = ("D", nac, tuple(np.round(q, 12)), nt, None if dirvec is None else tuple(np.round(dirvec, 12)))
        if key in self._cache:
            return self._cache[key]
        if nt == "none":
            d = self.sign * self.orc.dynmat(q)
        else:
            ref = self.phonopy(nac, False, ref=True)
            dmobj = ref.dynamical_matrix
            if nt == "dir":
                dmobj.run(np.array(q, dtype=float), q_direction=np.array(dirvec, dtype=float))
            else:
                dmobj.run(np.array(q, dtype=float))
            d = np.array(dmobj.dynamical_matrix, dtype=complex).copy()
        self._cache[key] = d
        return d

    def gvref(self, nac, dec, q, pert, fac="vasp"):
        """group velocities from a fresh GroupVelocity object on the CURRENT dynamical-matrix object of
        sigma.  Cached per dynamical-matrix object: the direct getters rebuild it, and the Gonze-Lee data
        set of a rebuilt object differs in the last bit (OpenMP reductions), which the finite difference
        (dq = 1e-5) and 1/(2 omega) of group velocities amplify to ~1e-6."""
        ph = self.phonopy(nac, dec, fac=fac)
        dmo = ph.dynamical_matrix
        key = ("GV", nac, dec, fac, tuple(np.round(q, 12)), None if pert is None else tuple(np.round(pert, 12)))
        hit = self._cache.get(key)
        if hit is not None and hit[0] is dmo:
            return hit[1]
        gvo = GroupVelocity(dmo, q_length=None, symmetry=ph.primitive_symmetry,
                            frequency_factor_to_THz=ph.unit_conversion_factor)
        gvo.run([np.array(q, dtype=float)], perturbation=pert)
        g = np.array(gvo.group_velocities[0]).copy()
        self._cache[key] = (dmo, g)
        return g


def freq_to_lambda(f, factor):
    f = np.asarray(f, dtype=float)
    return np.sign(f) * (f / factor) ** 2


class Classifier:
    """Token sets of the arrays reported for one event."""

    def __init__(self, world, cfg, qvecs, qids, dirvec, factor):
        self.w = world
        self.cfg = cfg
        self.factor = factor
        self.dirvec = dirvec
        self.qmap = {}
        for qid, qv in zip(qids, qvecs):
            self.qmap.setdefault(qid, np.array(qv, dtype=float))
        self.cands = []  # (token fields, D, lambda)
        nac = cfg["nac"]
        for qid, qv in self.qmap.items():
            nts = ["none"]
            if nac != "none":
                if qid != "G":
                    nts.append("q")
                elif dirvec is not None:
                    nts.append("dir")
            for nt in nts:
                d0 = world.dref(nac, qv, nt, dirvec)
                for r in ([False, True] if cfg["dec"] else [False]):
                    d = np.round(d0, DECIMALS) if r else d0
                    lam = np.linalg.eigvalsh(d)
                    self.cands.append((dict(q=qid, nt=nt, r=r), d, lam))
        self.scale = max(1.0, max(np.abs(c[1]).max() for c in self.cands))
        self.maxerr = dict(D=0.0, L=0.0, GV=0.0, E=0.0)
        self.j = 0

    def _note(self, k, e):
        # with band connection the in-order reading of points j > 1 is not the required one: rows that
        # were exchanged may agree to within the tolerance without being the same rows
        if self.cfg["path"] == "band" and self.cfg["conn"] and self.j > 1:
            return
        if e > self.maxerr[k]:
            self.maxerr[k] = float(e)

    def dm(self, a):
        a = np.asarray(a)
        out = []
        if a.shape != (self.w.nband, self.w.nband):
            return [tok("X")]
        best = None
        for f, d, lam in self.cands:
            e = np.abs(a - d).max() / self.scale
            if e < TOL_D:
                best = e if best is None else min(best, e)
                out.append(tok("D", f["q"], f["nt"], f["r"]))
        if best is not None:
            self._note("D", best)
        if not out:
            out = [tok("Z")] if np.abs(a).max() == 0 else (self.evec(a, 0, bare=True) or [tok("X")])
        return out

    def freq(self, fr, j):
        self.j = j
        fr = np.asarray(fr, dtype=float)
        if fr.shape != (self.w.nband,):
            return [tok("X")]
        out = []
        best = None
        # the object's own unit conversion factor, and the default one if the object has another
        units = [("own", self.factor)]
        if self.cfg.get("fac", "vasp") != "vasp":
            units.append(("default", factor_value("vasp")))
        for uname, fac in units:
            lam_out = freq_to_lambda(fr, fac)
            for f, d, lam in self.cands:
                e = np.abs(lam_out - lam).max() / self.scale
                if e < TOL_L:
                    if uname == "own":
                        best = e if best is None else min(best, e)
                    out.append(tok("F", f["q"], f["nt"], f["r"], o=0, u=uname))
                if j > 1:
                    e = np.abs(np.sort(lam_out) - lam).max() / self.scale
                    if e < TOL_L:
                        out.append(tok("F", f["q"], f["nt"], f["r"], o=j, u=uname))
        if best is not None:
            self._note("L", best)
        return out or [tok("X")]

    def evec(self, ev, j, bare=False):
        """E tokens of a matrix (bare=True: the empty list when there is none)."""
        self.j = j
        ev = np.asarray(ev)
        n = self.w.nband
        none = [] if bare else [tok("X")]
        if ev.shape != (n, n) or np.abs(ev.conj().T @ ev - np.eye(n)).max() > 1e-9:
            return none
        out = []
        best = None
        for f, d, lam in self.cands:
            m = ev.conj().T @ d @ ev
            off = np.abs(m - np.diag(np.diag(m))).max() / self.scale
            if off > TOL_L:
                continue
            mu = np.diag(m).real
            e = np.abs(mu - lam).max() / self.scale
            if e < TOL_L:
                best = max(off, e) if best is None else min(best, max(off, e))
                out.append(tok("E", f["q"], f["nt"], f["r"], o=0))
            if j > 1 and np.abs(np.sort(mu) - lam).max() / self.scale < TOL_L:
                out.append(tok("E", f["q"], f["nt"], f["r"], o=j))
        if best is not None:
            self._note("E", best)
        return out or none

    def gv(self, g, j, fr):
        self.j = j
        g = np.asarray(g, dtype=float)
        n = self.w.nband
        if g.shape != (n, 3):
            return [tok("X")]
        out = []
        best = None
        perts = [("none", None)]
        if self.cfg["path"] == "qpoints" and self.cfg["dir"]:
            perts.append(("dir", self.dirvec))
        for qid, qv in self.qmap.items():
            for pname, pv in perts:
                ref = self.w.gvref(self.cfg["nac"], self.cfg["dec"], qv, pv, self.cfg.get("fac", "vasp"))
                sc = max(1.0, np.abs(ref).max())
                e = np.abs(g - ref).max() / sc
                if e < TOL_GV:
                    best = e if best is None else min(best, e)
                    out.append(tok("GV", qid, "na", False, pname, 0))
                if j > 1 and fr is not None and _gv_permuted(g, ref, np.asarray(fr, dtype=float), sc):
                    out.append(tok("GV", qid, "na", False, pname, j))
        if best is not None:
            self._note("GV", best)
        return out or [tok("X")]


def _gv_permuted(g, ref, fr, sc):
    """g is ref re-ordered by the permutation that sorts the reported frequencies
    (rows inside a degenerate set may come in any order)."""
    order = np.argsort(fr, kind="stable")
    gs = g[order]
    fs = fr[order]
    n = len(fs)
    i = 0
    while i < n:
        k = i + 1
        while k < n and abs(fs[k] - fs[i]) < 1e-6:
            k += 1
        rows = list(range(i, k))
        left = list(rows)
        for a in rows:
            best = None
            for b in left:
                if np.abs(gs[a] - ref[b]).max() / sc < TOL_GV:
                    best = b
                    break
            if best is None:
                return False
            left.remove(best)
        i = k
    return True


# ---------------------------------------------------------------------------------------
def realise_q(cfg, rng, comm):
    """q ids of a configuration -> vectors (and the direction of the call)."""
    def generic():
        return rng.uniform(-0.5, 0.5, size=3).round(6)

    comm_pts = [np.array(p) for p in ([0.5, 0, 0], [0, 0.5, 0.5], [0.5, 0.5, 0.5], [0, 0, 0.5], [0.5, 0.5, 0])]
    ids = sorted(set(cfg["qs"]) - {"G"})
    vec = {"G": np.zeros(3)}
    shape = cfg["shape"]
    if shape in ("radial",):
        v = generic()
        ts = [0.9, -0.45, 0.3]
        if cfg["qs"][0] != "G" and cfg["qs"][-1] != "G" and "G" not in cfg["qs"]:
            ts = [0.4, 0.8, 0.6]
        for k, qid in enumerate(ids):
            vec[qid] = (v * ts[k]).round(8)
    else:
        picks = rng.permutation(len(comm_pts))
        for k, qid in enumerate(ids):
            vec[qid] = comm_pts[picks[k]] if comm else generic()
    dirvec = None
    if cfg["path"] in ("qpoints", "direct") and cfg["dir"]:
        dirvec = rng.uniform(-1, 1, size=3).round(4)
        if np.abs(dirvec).max() < 0.2:
            dirvec[0] = 0.7
    return [vec[q] for q in cfg["qs"]], dirvec


def exact_values(qvecs, lay, rng):
    """q-point values that the presentation can hold exactly (float32: multiples of 1/64; int: integers),
    keeping Gamma, repeated points and collinearity with Gamma (every vector is an exact multiple of the first
    non-zero one when the list is collinear)."""
    if lay not in ("f32", "int"):
        return qvecs
    A = np.array(qvecs, dtype=float)
    nz = [k for k in range(len(A)) if np.abs(A[k]).max() > 1e-9]
    if not nz:
        return qvecs
    coll = all(np.linalg.norm(np.cross(A[nz[0]], A[k])) < 1e-9 for k in nz)
    out = np.zeros_like(A)
    if lay == "int":
        base = [np.array(v, dtype=float) for v in ([1, 0, 2], [0, 1, 1], [2, 1, 0], [1, 1, 1], [0, 2, 1])]
    else:
        base = [np.array(v, dtype=float) / 64 for v in ([9, 3, 22], [5, 31, 12], [27, 7, 2], [13, 17, 30], [3, 25, 8])]
    pick = rng.permutation(len(base))
    seen = []
    for k in nz:
        for j, s_ in enumerate(seen):
            if np.abs(A[k] - A[s_]).max() < 1e-9:
                out[k] = out[s_]
                break
        else:
            if coll and seen:
                mult = [2.0, -1.0, 3.0][(len(seen) - 1) % 3] if lay == "int" else [0.5, -0.25, 0.75][(len(seen) - 1) % 3]
                out[k] = out[seen[0]] * mult
            else:
                out[k] = base[pick[len(seen) % len(base)]]
            seen.append(k)
    return [out[k] for k in range(len(A))]


def present(qvecs, lay):
    """the same values in another container / memory layout; (n, 3) or (3,)"""
    A = np.array(qvecs, dtype=float)
    if lay == "list":
        return A.tolist()
    if lay == "tuple":
        return tuple(tuple(r) for r in A.tolist()) if A.ndim == 2 else tuple(A.tolist())
    if lay == "f32":
        return A.astype(np.float32)
    if lay == "int":
        return np.rint(A).astype(np.int64)
    if lay == "readonly":
        B = A.copy()
        B.flags.writeable = False
        return B
    if A.ndim == 1:
        if lay in ("farray", "tview", "strided", "colslice"):
            big = np.full(6, 7.25)
            big[::2] = A
            return big[::2]
        return A.copy()
    if lay == "farray":
        return np.asfortranarray(A)
    if lay == "tview":
        return np.ascontiguousarray(A.T).T
    if lay == "strided":
        big = np.full((2 * len(A), 3), 7.25)
        big[::2] = A
        return big[::2]
    if lay == "colslice":
        wide = np.full((len(A), 5), 7.25)
        wide[:, 1:4] = A
        return wide[:, 1:4]
    return A.copy()


def qids_of(qpoints):
    ids = []
    seen = []
    for q in qpoints:
        q = np.asarray(q, dtype=float)
        if np.abs(q).max() < 1e-9:
            ids.append("G")
            continue
        for k, s in enumerate(seen):
            if np.abs(s - q).max() < 1e-9:
                ids.append("q%d" % (k + 1))
                break
        else:
            seen.append(q)
            ids.append("q%d" % len(seen))
    return ids


_NUM = r"[-+]?\d+\.(\d+)"


def yaml_digits(text):
    """decimals printed per field in a phonopy yaml (first occurrence)."""
    d = {}
    m = re.search(r"frequency:\s+" + _NUM, text)
    if m:
        d["frequency"] = len(m.group(1))
    m = re.search(r"group_velocity: \[\s*" + _NUM, text)
    if m:
        d["group_velocity"] = len(m.group(1))
    m = re.search(r"eigenvector:\n\s+- # atom 1\n\s+- \[\s*" + _NUM, text)
    if m:
        d["eigenvector"] = len(m.group(1))
    m = re.search(r"dynamical_matrix:\n\s+- \[\s*" + _NUM, text)
    if m:
        d["dynamical_matrix"] = len(m.group(1))
    m = re.search(r"q-position: \[\s*" + _NUM, text)
    if m:
        d["qposition"] = len(m.group(1))
    return d


def _milli(a, b, digits):
    a = np.asarray(a)
    b = np.asarray(b)
    if a.shape != b.shape:
        return 999999
    d = a - b
    if np.iscomplexobj(d):  # real and imaginary parts are printed separately
        d = np.concatenate([d.real.ravel(), d.imag.ravel()])
    e = float(np.abs(d).max()) if a.size else 0.0
    return int(min(999999, math.ceil(e * 10 ** digits * 1000 - 1e-6)))


def yaml_records(text, mem, want):
    """Compare a written yaml with the arrays in memory: one record per field."""
    import yaml

    try:
        from yaml import CSafeLoader as Loader
    except ImportError:  # pragma: no cover
        from yaml import SafeLoader as Loader
    data = yaml.load(text, Loader=Loader)
    digs = yaml_digits(text)
    ph = data["phonon"]
    recs = []
    nq = len(ph)
    n = len(ph[0]["band"])
    got = {}
    got["qposition"] = np.array([p["q-position"] for p in ph], dtype=float)
    got["frequency"] = np.array([[b["frequency"] for b in p["band"]] for p in ph], dtype=float)
    if "group_velocity" in ph[0]["band"][0]:
        got["group_velocity"] = np.array([[b["group_velocity"] for b in p["band"]] for p in ph], dtype=float)
    if "eigenvector" in ph[0]["band"][0]:
        ev = np.zeros((nq, n, n), dtype=complex)
        for i, p in enumerate(ph):
            for j, b in enumerate(p["band"]):
                comp = np.array(b["eigenvector"], dtype=float).reshape(-1, 2)
                ev[i, :, j] = comp[:, 0] + 1j * comp[:, 1]
        got["eigenvector"] = ev
    if "dynamical_matrix" in ph[0]:
        dm = np.zeros((nq, n, n), dtype=complex)
        for i, p in enumerate(ph):
            rows = np.array(p["dynamical_matrix"], dtype=float)
            dm[i] = rows[:, 0::2] + 1j * rows[:, 1::2]
        got["dynamical_matrix"] = dm
    for field in ("qposition", "frequency", "group_velocity", "eigenvector", "dynamical_matrix"):
        present = field in got
        if field not in want and not present:
            continue
        rec = dict(fmt="yaml", field=field, present=present, digits=int(digs.get(field, -1)), milli=0)
        if present and mem.get(field) is not None:
            rec["milli"] = _milli(got[field], mem[field], rec["digits"])
        elif present:
            rec["milli"] = 999999
        recs.append(rec)
    return recs


def hdf5_records(path, mem, want):
    import h5py

    names = dict(qposition="qpoint", frequency="frequency", group_velocity="group_velocity",
                 eigenvector="eigenvector", dynamical_matrix="dynamical_matrix")
    recs = []
    with h5py.File(path, "r") as f:
        for field, name in names.items():
            if field == "qposition" and "qpoint" not in f:
                name = "path"
            present = name in f
            if field not in want and not present:
                continue
            rec = dict(fmt="hdf5", field=field, present=present, digits=0, milli=0)
            if present:
                a = np.array(f[name])
                b = mem.get(field)
                if b is None:
                    rec["milli"] = 999999
                else:
                    b = np.asarray(b)
                    a = a.reshape(b.shape) if a.size == b.size else a
                    rec["milli"] = 0 if (a.shape == b.shape and np.array_equal(a, b)) else 999999
            recs.append(rec)
    return recs


# ---------------------------------------------------------------------------------------
def run_case(world, cfg, rng, comm, with_files, evid):
    """Execute one configuration on the real code -> event dict."""
    nac, dec = cfg["nac"], cfg["dec"]
    ph = world.phonopy(nac, dec, fac=cfg.get("fac", "vasp"))
    factor = ph.unit_conversion_factor
    path = cfg["path"]
    qvecs, dirvec = realise_q(cfg, rng, comm)
    lay = cfg.get("lay", "carray")
    qvecs = exact_values(qvecs, lay, rng)
    qids = list(cfg["qs"])
    out = dict(err="none", freq=[], eigvec=[], dm=[], gv=[], gc="na", diag="na", iter="na", permok="na")
    files = []
    ev = dict(id=evid, entry=world.entry, cfg=dict(cfg), out=out, files=files)
    raw = {}
    args = {}
    extra_raw = None
    extra_q = [[0.11, 0.07, 0.31], [0.2, 0.1, 0.05], [0.3, 0.2, 0.1], [0.4, 0.25, 0.1]]
    try:
        with contextlib.redirect_stdout(io.StringIO()):
            if path == "qpoints":
                args = dict(q=[list(map(float, q)) for q in qvecs], dir=None if dirvec is None else list(map(float, dirvec)))
                ph.run_qpoints(present(qvecs, lay), with_eigenvectors=cfg["wev"], with_group_velocities=cfg["wgv"],
                               with_dynamical_matrices=cfg["wdm"], nac_q_direction=dirvec)
                d = ph.get_qpoints_dict()
                raw = dict(freq=d["frequencies"], eigvec=d["eigenvectors"], dm=d["dynamical_matrices"],
                           gv=d["group_velocities"])
                if with_files:
                    files += _files_qpoints(ph, qvecs, raw, cfg)
            elif path in ("mesh", "itermesh"):
                if cfg["meshlen"]:
                    mesh = _pick_length(ph, rng)
                else:
                    mesh = [[2, 2, 2], [2, 3, 2], [2, 2, 3]][int(rng.integers(3))]
                msym = bool(rng.integers(2))
                args = dict(mesh=mesh, gc=cfg["gc"], is_mesh_symmetry=msym)
                if path == "mesh":
                    ph.run_mesh(mesh, with_eigenvectors=cfg["wev"], with_group_velocities=cfg["wgv"],
                                is_gamma_center=cfg["gc"], is_mesh_symmetry=msym)
                    d = ph.get_mesh_dict()
                    qvecs = [np.array(q) for q in d["qpoints"]]
                    raw = dict(freq=d["frequencies"], eigvec=d["eigenvectors"], gv=d["group_velocities"], dm=None)
                    # stored mesh iterated: the same rows
                    same = True
                    cnt = 0
                    for k, (f, e) in enumerate(ph.mesh):
                        cnt += 1
                        same &= bool(np.array_equal(f, d["frequencies"][k]))
                        same &= (e is None) == (d["eigenvectors"] is None)
                        if e is not None:
                            same &= bool(np.array_equal(e, d["eigenvectors"][k]))
                    out["iter"] = "ok" if (same and cnt == len(qvecs)) else "bad"
                    if with_files:
                        files += _files_mesh(ph, qvecs, raw, cfg)
                else:
                    ph.init_mesh(mesh, with_eigenvectors=cfg["wev"], is_gamma_center=cfg["gc"],
                                 is_mesh_symmetry=msym, use_iter_mesh=True)
                    qvecs = [np.array(q) for q in ph.mesh.qpoints]
                    fs, es = [], []
                    for f, e in ph.mesh:
                        fs.append(np.array(f))
                        es.append(e)
                    raw = dict(freq=fs, eigvec=(es if any(e is not None for e in es) else None), gv=None, dm=None)
                    if raw["eigvec"] is not None and any(e is None for e in es):
                        raw["eigvec"] = [np.zeros((1, 1)) if e is None else e for e in es]
                qids = qids_of(qvecs)
                mn = np.array(ph.mesh.mesh_numbers)
                x = np.array(qvecs) * mn
                on_grid = bool(np.abs(x - np.rint(x)).max() < 1e-8)
                out["gc"] = "gamma" if on_grid else "mp"
                if not (mn % 2 == 0).any():
                    out["gc"] = "indeterminate"
                args["mesh_numbers"] = mn.tolist()
            elif path == "band":
                two = bool(rng.integers(2)) and not with_files
                paths = [present(qvecs, lay)] + ([np.array(extra_q)] if two else [])
                args = dict(paths=[np.array(p, dtype=float).tolist() for p in paths], presentation=lay)
                ph.run_band_structure(paths, with_eigenvectors=cfg["wev"], with_group_velocities=cfg["wgv"],
                                      is_band_connection=cfg["conn"])
                d = ph.get_band_structure_dict()
                raw = dict(freq=d["frequencies"][0], eigvec=None if d["eigenvectors"] is None else d["eigenvectors"][0],
                           gv=None if d["group_velocities"] is None else d["group_velocities"][0], dm=None)
                if two:
                    extra_raw = dict(freq=d["frequencies"][1], eigvec=None if d["eigenvectors"] is None else d["eigenvectors"][1],
                                     gv=None if d["group_velocities"] is None else d["group_velocities"][1], dm=None)
                if cfg["shape"] == "radial":
                    dirvec = np.array(qvecs[0]) - np.array(qvecs[-1])
                if with_files:
                    files += _files_band(ph, qvecs, raw, cfg)
            elif path == "direct":
                fs, es, ds = [], [], []
                for q in [present(q_, lay) for q_ in qvecs]:
                    if cfg["kind"] == "dm":
                        ds.append(np.array(ph.get_dynamical_matrix_at_q(q)))
                    elif cfg["kind"] == "freq":
                        fs.append(np.array(ph.get_frequencies(q)))
                    elif cfg["kind"] == "freqvec":
                        f, e = ph.get_frequencies_with_eigenvectors(q)
                        fs.append(np.array(f))
                        es.append(np.array(e))
                    else:
                        dmo = ph.dynamical_matrix
                        if nac != "none":
                            dmo.run(q, q_direction=dirvec)
                        else:
                            dmo.run(q)
                        ds.append(np.array(dmo.dynamical_matrix).copy())
                args = dict(q=[list(map(float, q)) for q in qvecs], dir=None if dirvec is None else list(map(float, dirvec)))
                raw = dict(freq=fs or None, eigvec=es or None, dm=ds or None, gv=None)
    except Exception as e:  # an exception of phonopy where the specification expects a result
        out["err"] = type(e).__name__
        ev["exc"] = repr(e)[:200]
        ev["args"] = args
        ev["qs"] = qids
        ev["cfg"]["qs"] = qids
        return ev
    ev["cfg"]["qs"] = qids
    ev["args"] = args
    classify(world, ev, qvecs, dirvec, raw, factor)
    if extra_raw is not None:
        # the second path of the same call is an observation of its own (open path, four points):
        # nothing of the first path may leak into it (band order, direction, distances)
        cfg2 = dict(cfg, shape="open", qs=["q1", "q2", "q3", "q4"])
        ev2 = dict(id=-evid, entry=world.entry, cfg=cfg2, args=args, files=[],
                   out=dict(err="none", freq=[], eigvec=[], dm=[], gv=[], gc="na", diag="na", iter="na", permok="na"))
        classify(world, ev2, [np.array(q) for q in extra_q], None, extra_raw, factor)
        ev["second_path"] = ev2
    return ev


def classify(world, ev, qvecs, dirvec, raw, factor):
    cfg, out = ev["cfg"], ev["out"]
    qids = cfg["qs"]
    path = cfg["path"]
    cl = Classifier(world, cfg, qvecs, qids, dirvec, factor)

    def slot(a):
        return None if a is None else [a[k] for k in range(len(a))]

    F, E, Dm, G = slot(raw.get("freq")), slot(raw.get("eigvec")), slot(raw.get("dm")), slot(raw.get("gv"))
    if F is not None:
        out["freq"] = [cl.freq(F[k], k + 1) for k in range(len(F))]
    if E is not None:
        out["eigvec"] = [cl.evec(E[k], k + 1) for k in range(len(E))]
    if Dm is not None:
        out["dm"] = [cl.dm(Dm[k]) for k in range(len(Dm))]
    if G is not None:
        out["gv"] = [cl.gv(G[k], k + 1, None if F is None else F[k]) for k in range(len(G))]
    # the reported triple on its own: E^H D E = diag(lambda) with the reported arrays
    if F is not None and E is not None and Dm is not None and len(F) == len(E) == len(Dm):
        ok = True
        for k in range(len(F)):
            e, d = np.asarray(E[k]), np.asarray(Dm[k])
            if e.shape != d.shape or e.ndim != 2:
                ok = False
                continue
            m = e.conj().T @ d @ e
            lam = freq_to_lambda(F[k], factor)
            ok &= bool(np.abs(m - np.diag(lam)).max() / cl.scale < 1e-8)
        out["diag"] = "ok" if ok else "bad"
    if path == "band" and cfg["conn"] and F is not None:
        # only re-ordered: the multiset of frequencies is that of the unconnected spectrum
        ok = True
        for k in range(len(F)):
            lam_out = np.sort(freq_to_lambda(F[k], factor))
            ok &= any(np.abs(lam_out - c[2]).max() / cl.scale < TOL_L for c in cl.cands if c[0]["q"] == qids[k])
        out["permok"] = "ok" if ok else "bad"
    ev["maxerr"] = cl.maxerr


def _pick_length(ph, rng):
    from phonopy.structure.grid_points import length2mesh

    for length in (7.0, 9.0, 5.0, 11.0, 6.0, 8.0, 10.0, 12.0, 4.0, 13.0):
        mn = np.array(length2mesh(length, ph.primitive.cell, rotations=ph.primitive_symmetry.pointgroup_operations))
        if (mn % 2 == 0).any() and np.prod(mn) <= 36:
            return float(length)
    return 7.0


def _mem(qvecs, raw):
    def arr(x):
        return None if x is None else np.array(x)
    return dict(qposition=np.array(qvecs, dtype=float), frequency=arr(raw.get("freq")), eigenvector=arr(raw.get("eigvec")),
                group_velocity=arr(raw.get("gv")), dynamical_matrix=arr(raw.get("dm")))


def _want(cfg):
    w = {"qposition", "frequency"}
    if cfg["wev"] or (cfg["path"] == "band" and cfg["conn"]):
        w.add("eigenvector")
    if cfg["wgv"]:
        w.add("group_velocity")
    if cfg["path"] == "qpoints" and cfg["wdm"]:
        w.add("dynamical_matrix")
    return w


def _files_qpoints(ph, qvecs, raw, cfg):
    mem = _mem(qvecs, raw)
    with tempfile.TemporaryDirectory(prefix="c14_") as td:
        cwd = os.getcwd()
        os.chdir(td)
        try:
            ph.write_yaml_qpoints_phonon()
            ph.write_hdf5_qpoints_phonon()
            text = open("qpoints.yaml").read()
            recs = yaml_records(text, mem, _want(cfg)) + hdf5_records("qpoints.hdf5", mem, _want(cfg))
        finally:
            os.chdir(cwd)
    return recs


def _files_mesh(ph, qvecs, raw, cfg):
    mem = _mem(qvecs, raw)
    with tempfile.TemporaryDirectory(prefix="c14_") as td:
        cwd = os.getcwd()
        os.chdir(td)
        try:
            ph.write_yaml_mesh()
            ph.write_hdf5_mesh()
            text = open("mesh.yaml").read()
            recs = yaml_records(text, mem, _want(cfg)) + hdf5_records("mesh.hdf5", mem, _want(cfg))
        finally:
            os.chdir(cwd)
    return recs


def _files_band(ph, qvecs, raw, cfg):
    mem = _mem(qvecs, raw)
    with tempfile.TemporaryDirectory(prefix="c14_") as td:
        y = os.path.join(td, "band.yaml")
        h = os.path.join(td, "band.hdf5")
        ph.write_yaml_band_structure(filename=y)
        ph.write_hdf5_band_structure(filename=h)
        text = open(y).read()
        recs = yaml_records(text, mem, _want(cfg)) + hdf5_records(h, mem, _want(cfg))
    return recs


def main(argv):
    plan_path, out_path = argv
    with open(plan_path) as f:
        plan = json.load(f)
    omp = bool(phonoc.use_openmp())
    seed = plan["seed"]
    rng = np.random.default_rng([seed, 14, int(omp)])
    worlds = {}
    events = []
    t0 = time.time()
    evid = plan["id_base"]
    for item in plan["cases"]:
        cfg = item["cfg"]
        if cfg["omp"] != omp:
            continue
        entry = item["entry"]
        if entry not in worlds:
            worlds[entry] = World(entry, seed)
        evid += 1
        ev = run_case(worlds[entry], cfg, rng, item["comm"], item["files"], evid)
        events.append(ev)
        ev2 = ev.pop("second_path", None)
        if ev2 is not None:
            evid += 1
            ev2["id"] = evid
            events.append(ev2)
    # self-check of the interpretation: the oracle's matrix is the matrix phonopy builds without NAC
    chk = {}
    for entry, w in worlds.items():
        ph = w.phonopy("none", False)
        q = np.array([0.137, -0.291, 0.411])
        chk[entry] = float(np.abs(ph.get_dynamical_matrix_at_q(q) - w.sign * w.orc.dynmat(q)).max())
    with open(out_path, "w") as f:
        json.dump(dict(omp=omp, events=events, oracle_check=chk, wall=time.time() - t0), f)


if __name__ == "__main__":
    main(sys.argv[1:])
