"""Realise the specification's exact spring-model oracle (harness/springs.py,
spec/Springs.tla) as real phonopy inputs and expected outputs.

Nothing here calls phonopy numerics: cells are built with PhonopyAtoms, the
expected arrays come from the integers TLC computed."""
from __future__ import annotations

import json

import numpy as np

from . import springs, xtal

SYMBOL_OF = {1: "Na", 2: "Cl", 3: "Si", 4: "O"}


def det3(M):
    M = np.array(M, dtype=object)
    return int(M[0][0] * (M[1][1] * M[2][2] - M[1][2] * M[2][1]) - M[0][1] * (M[1][0] * M[2][2] - M[1][2] * M[2][0])
               + M[0][2] * (M[1][0] * M[2][1] - M[1][1] * M[2][0]))


def adj3(M):
    M = np.array(M, dtype=np.int64)
    d = det3(M)
    # adj = det * inv, exact for integer matrices via cofactors
    c = np.zeros((3, 3), dtype=np.int64)
    for i in range(3):
        for j in range(3):
            m = np.delete(np.delete(M, i, 0), j, 1)
            c[i, j] = (-1) ** (i + j) * (m[0, 0] * m[1, 1] - m[0, 1] * m[1, 0])
    return c.T


def class_key(S, D, u):
    m = D * abs(det3(S))
    w = adj3(S) @ np.array(u, dtype=np.int64)
    return tuple(int(x) % m for x in w)


class Oracle:
    """One catalogue entry realised on a real lattice."""

    def __init__(self, entry, mats, a=2.0, seed=0, rotate=True, ctx=None, repbox=3):
        self.o = springs.compute(entry, mats, repbox=repbox, ctx=ctx)
        self.cr = self.o["crystal"]
        self.D = self.cr["D"]
        self.G = np.array(self.cr["G"], dtype=float)
        rng = np.random.default_rng(seed)
        self.a = a
        self.L = xtal.lattice_from_gram(self.G, a=a, rng=rng if rotate else None)
        self.Linv = np.linalg.inv(self.L)
        self.species = [at["sp"] for at in self.cr["atoms"]]
        self.masses = [float(at["m"]) for at in self.cr["atoms"]]
        self.num = [at["num"] for at in self.cr["atoms"]]

    # -- inputs --------------------------------------------------------------
    def unitcell(self):
        from phonopy.structure.atoms import PhonopyAtoms

        return PhonopyAtoms(symbols=[SYMBOL_OF[s] for s in self.species],
                            scaled_positions=np.array(self.num, dtype=float) / self.D,
                            cell=self.L, masses=self.masses)

    def cart_tensor(self, T):
        """D^2 Phi~ (integer, covariant lattice components) -> Cartesian Phi."""
        return self.Linv @ (np.array(T, dtype=float) / self.D ** 2) @ self.Linv.T

    # -- supercell force constants in the real code's atom order ---------------
    def match_atoms(self, S, supercell):
        """index map real supercell atom -> index in the specification's atom list."""
        cell = self.o["cells"][json.dumps([[int(x) for x in r] for r in S])]
        spec_index = {}
        for k, at in enumerate(cell["atoms"]):
            spec_index[(at["a"], class_key(S, self.D, at["u"]))] = k
        u, resid = xtal.project_to_unit(supercell.positions, self.L, self.D)
        assert resid < 1e-6, resid
        idx = []
        for k in range(len(supercell)):
            a = None
            for ai, n in enumerate(self.num):
                if all((int(u[k][i]) - n[i]) % self.D == 0 for i in range(3)) and \
                        SYMBOL_OF[self.species[ai]] == supercell.symbols[k]:
                    a = ai + 1
                    break
            idx.append(spec_index[(a, class_key(S, self.D, u[k]))])
        return idx, cell

    def supercell_fc(self, S, supercell):
        idx, cell = self.match_atoms(S, supercell)
        fcT = np.array(cell["fc"], dtype=float)  # (n,n,3,3) in spec order
        n = len(idx)
        fc = np.zeros((n, n, 3, 3))
        for i in range(n):
            for j in range(n):
                fc[i, j] = self.cart_tensor(fcT[idx[i], idx[j]])
        return fc

    # -- lattice Fourier sum from the exact series ---------------------------------
    def dynmat(self, q_unit):
        """D(q) of the infinite crystal, q in reduced coordinates of the UNIT cell's
        reciprocal lattice; indices (a alpha, b beta); phase convention of phonopy:
        exp(2 pi i q.(r_b+l - r_a))."""
        n = len(self.num)
        dm = np.zeros((3 * n, 3 * n), dtype=complex)
        q = np.array(q_unit, dtype=float)
        for t in self.o["terms"]:
            a, b = t["a"] - 1, t["b"] - 1
            phase = np.exp(2j * np.pi * np.dot(q, np.array(t["r"], dtype=float) / self.D))
            dm[3 * a:3 * a + 3, 3 * b:3 * b + 3] += self.cart_tensor(t["T"]) * phase / np.sqrt(self.masses[a] * self.masses[b])
        return dm
