"""C07 helper: real phonopy systems, integer inputs, recorded executions of the
symmetrisation routines and their exact rational projection.

Nothing here decides the property: the arrays returned by phonopy are rounded
to rationals with a known denominator (residual recorded) and handed to TLC.
The small integer routines (full_of, proj_def, sg_mean) only *propose* inputs
that are announced as periodic / symmetric; TLC checks the announcement from
the definitions (Announced in Symmetrize.tla)."""
from __future__ import annotations

import contextlib
import io
import math
import sys

import numpy as np

from harness import bootstrap  # noqa: F401

from phonopy import Phonopy
from phonopy.structure.atoms import PhonopyAtoms
from phonopy.harmonic import force_constants as FCM

INT_LIMIT = 2 ** 31 - 1
TOL = 1e-9


# --------------------------------------------------------------------------
# systems
# --------------------------------------------------------------------------
def _tric(rng):
    while True:
        L = np.eye(3) * 4.0 + rng.uniform(-0.8, 0.8, size=(3, 3))
        if np.linalg.det(L) > 32:
            return L


CUBIC = np.eye(3) * 3.0
TETRA = np.diag([3.0, 3.0, 3.7])

GCUB = [[1, 0, 0], [0, 1, 0], [0, 0, 1]]
GTET = [[2, 0, 0], [0, 2, 0], [0, 0, 3]]
GHEX3 = [[2, -1, 0], [-1, 2, 0], [0, 0, 3]]
GHEX5 = [[2, -1, 0], [-1, 2, 0], [0, 0, 5]]
GMONO = [[4, 0, 1], [0, 5, 0], [1, 0, 6]]

NACL8 = [[0, 0, 0], [1, 0, 0], [0, 1, 1], [1, 1, 1], [1, 0, 1], [0, 0, 1], [1, 1, 0], [0, 1, 0]]

# name, symbols, positions (numerators / D), D, lattice kind, supercell matrix, primitive matrix, sg?
SPECS = [
    dict(name="sc112", sym=["Na"], num=[[0, 0, 0]], D=1, lat="tric", S=[1, 1, 2], P=None, tier="quick"),
    dict(name="sc113", sym=["Na"], num=[[0, 0, 0]], D=1, lat="tric", S=[1, 1, 3], P=None, tier="quick"),
    dict(name="sc114", sym=["Na"], num=[[0, 0, 0]], D=1, lat="tric", S=[1, 1, 4], P=None, tier="thorough"),
    dict(name="sc122", sym=["Na"], num=[[0, 0, 0]], D=1, lat="tric", S=[1, 2, 2], P=None, tier="quick"),
    dict(name="sc222", sym=["Na"], num=[[0, 0, 0]], D=1, lat="tric", S=[2, 2, 2], P=None, tier="thorough"),
    dict(name="scnd2", sym=["Na"], num=[[0, 0, 0]], D=1, lat="tric", S=[[1, 1, 0], [-1, 1, 0], [0, 0, 1]], P=None,
         tier="thorough"),
    dict(name="ab111", sym=["Na", "Cl"], num=[[0, 0, 0], [1, 1, 1]], D=2, lat="tric", S=[1, 1, 1], P=None, tier="quick"),
    dict(name="ab112", sym=["Na", "Cl"], num=[[0, 0, 0], [1, 1, 1]], D=2, lat="tric", S=[1, 1, 2], P=None, tier="quick"),
    dict(name="ab113", sym=["Na", "Cl"], num=[[0, 0, 0], [1, 1, 1]], D=2, lat="tric", S=[1, 1, 3], P=None, tier="quick"),
    dict(name="ab122", sym=["Na", "Cl"], num=[[0, 0, 0], [1, 1, 1]], D=2, lat="tric", S=[1, 2, 2], P=None, tier="thorough"),
    dict(name="ab114", sym=["Na", "Cl"], num=[[0, 0, 0], [1, 1, 1]], D=2, lat="tric", S=[1, 1, 4], P=None, tier="thorough"),
    dict(name="aba112", sym=["Na", "Cl", "Na"], num=[[0, 0, 0], [1, 2, 1], [2, 1, 3]], D=4, lat="tric", S=[1, 1, 2], P=None,
         tier="thorough"),
    # primitive cell through a centring matrix: p2s atoms are picked by Primitive
    dict(name="bccI", sym=["Na", "Na"], num=[[0, 0, 0], [1, 1, 1]], D=2, lat="cubic", S=[1, 1, 1], P="I", tier="quick"),
    dict(name="bccI112", sym=["Na", "Na"], num=[[0, 0, 0], [1, 1, 1]], D=2, lat="cubic", S=[1, 1, 2], P="I", tier="thorough"),
    dict(name="naclF", sym=["Na", "Cl"] * 4, num=NACL8, D=2, lat="cubic", S=[1, 1, 1], P="F", tier="quick"),
    # space-group average.  Lattices are given by an integer Gram matrix (x a^2) and are realised, unless
    # rot=False, under a random rigid rotation: the cell matrix is then NOT symmetric.  The arrays of these
    # routes are in covariant components of the supercell lattice, where every operation is an integer matrix.
    dict(name="sgsc112", sym=["Na"], num=[[0, 0, 0]], D=1, gram=GCUB, rot=True, S=[1, 1, 2], P=None, sg=True, tier="quick"),
    dict(name="sgscnd2", sym=["Na"], num=[[0, 0, 0]], D=1, gram=GCUB, rot=False, S=[[1, 1, 0], [-1, 1, 0], [0, 0, 1]],
         P=None, sg=True, tier="quick"),
    dict(name="sghcp111", sym=["Na", "Na"], num=[[0, 0, 0], [2, 4, 3]], D=6, gram=GHEX3, rot=True, S=[1, 1, 1], P=None,
         sg=True, tier="quick"),
    dict(name="sgwz111", sym=["Na", "Na", "Cl", "Cl"], num=[[8, 16, 0], [16, 8, 12], [8, 16, 9], [16, 8, 21]], D=24,
         gram=GHEX5, rot=True, S=[1, 1, 1], P=None, sg=True, tier="quick"),
    dict(name="sgmono112", sym=["Na"], num=[[0, 0, 0]], D=1, gram=GMONO, rot=True, S=[1, 1, 2], P=None, sg=True,
         tier="quick"),
    dict(name="sgcu3au", sym=["Na", "Cl", "Cl", "Cl"], num=[[0, 0, 0], [1, 1, 0], [1, 0, 1], [0, 1, 1]], D=2, gram=GCUB,
         rot=False, S=[1, 1, 1], P=None, sg=True, tier="quick"),
    # catalogue crystals realised by harness/oracle.py (randomly oriented), with the exact integer spring-model
    # force constants of spec/Springs.tla: they obey the full space group, permutation and translation symmetry
    dict(name="orhcp111", oracle="hcp", S=[1, 1, 1], P=None, sg=True, tier="quick"),
    dict(name="orhcp112", oracle="hcp", S=[1, 1, 2], P=None, sg=True, tier="thorough"),
    dict(name="orwz111", oracle="wz", S=[1, 1, 1], P=None, sg=True, tier="thorough"),
    dict(name="ortetab112", oracle="tetab", S=[1, 1, 2], P=None, sg=True, tier="thorough"),
    dict(name="sgcu3aur", sym=["Na", "Cl", "Cl", "Cl"], num=[[0, 0, 0], [1, 1, 0], [1, 0, 1], [0, 1, 1]], D=2, gram=GCUB,
         rot=True, S=[1, 1, 1], P=None, sg=True, tier="thorough"),
    dict(name="sgab111", sym=["Na", "Cl"], num=[[0, 0, 0], [1, 1, 1]], D=2, gram=GCUB, rot=True, S=[1, 1, 1], P=None,
         sg=True, tier="thorough"),
    dict(name="sgab112", sym=["Na", "Cl"], num=[[0, 0, 0], [1, 1, 1]], D=2, gram=GTET, rot=True, S=[1, 1, 2], P=None,
         sg=True, tier="thorough"),
    dict(name="sgsc221", sym=["Na"], num=[[0, 0, 0]], D=1, gram=GCUB, rot=False, S=[2, 2, 1], P=None, sg=True,
         tier="thorough"),
    dict(name="sghcp112", sym=["Na", "Na"], num=[[0, 0, 0], [2, 4, 3]], D=6, gram=GHEX3, rot=True, S=[1, 1, 2], P=None,
         sg=True, tier="thorough"),
    dict(name="sghcpnd", sym=["Na", "Na"], num=[[0, 0, 0], [2, 4, 3]], D=6, gram=GHEX3, rot=False,
         S=[[1, 1, 0], [-1, 0, 0], [0, 0, 1]], P=None, sg=True, tier="thorough"),
]


class RealSystem:
    def __init__(self, spec, rng):
        self.spec = spec
        self.name = spec["name"]
        S = spec["S"]
        S = np.diag(S) if np.ndim(S) == 1 else np.array(S)
        self.orc = None
        if "oracle" in spec:
            from harness.oracle import Oracle

            self.orc = Oracle(spec["oracle"], [S.tolist()], seed=int(rng.integers(1 << 30)))
            self.a = self.orc.a
            self.gram = np.array(self.orc.cr["G"], dtype=np.int64)
            cell = self.orc.unitcell()
        else:
            if "gram" in spec:
                from harness import xtal

                self.a = 2.5
                self.gram = np.array(spec["gram"], dtype=np.int64)
                lat = xtal.lattice_from_gram(np.array(spec["gram"], dtype=float), a=self.a, rng=rng if spec["rot"] else None)
            else:
                lat = dict(tric=lambda: _tric(rng), cubic=lambda: CUBIC.copy(), tetra=lambda: TETRA.copy())[spec["lat"]]()
            cell = PhonopyAtoms(symbols=spec["sym"], scaled_positions=np.array(spec["num"], dtype=float) / spec["D"],
                                cell=lat)
        self.S = S
        with contextlib.redirect_stdout(io.StringIO()):
            self.ph = Phonopy(cell, supercell_matrix=S, primitive_matrix=spec["P"], log_level=0)
        prim = self.ph.primitive
        self.prim = prim
        self.perms = np.array(prim.atomic_permutations)
        self.p2s = np.array(prim.p2s_map)
        self.s2p = np.array(prim.s2p_map)
        self.ns = len(self.ph.supercell)
        self.np_ = len(self.p2s)
        s2pp, nsym = FCM.get_nsym_list_and_s2pp(prim.s2p_map, prim.p2p_map, prim.atomic_permutations)
        self.log_s2pp = np.array(s2pp)
        self.log_nsym = np.array(nsym)
        # own tables (definitions), used only to propose announced inputs
        self.s2pp = np.array([list(self.p2s).index(a) for a in self.s2p])
        self.nsym = np.array([[t for t in range(len(self.perms)) if self.perms[t][j] == self.s2p[j]][0]
                              for j in range(self.ns)])
        self.ops = None
        if spec.get("sg"):
            self.ops = self._ops()

    def _ops(self):
        """Space-group operations of the supercell as (integer rotation W in supercell lattice coordinates,
        atom permutation), the frame F (rows = supercell lattice vectors) and its integer Gram matrix."""
        sym = self.ph.symmetry.get_symmetry_operations()
        sc = self.ph.supercell
        L = np.array(sc.cell)  # rows
        self.F = L
        self.Finv = np.linalg.inv(L)
        M = np.array(self.S).T
        G = M @ self.gram @ M.T
        assert np.abs(L @ L.T / self.a ** 2 - G).max() < 1e-9, "supercell lattice is not S^T L"
        self.G = G
        pos = sc.scaled_positions
        out = []
        for r, t in zip(sym["rotations"], sym["translations"]):
            img = pos @ r.T + t
            perm = []
            for x in img:
                d = pos - x
                d -= np.rint(d)
                k = np.where(np.abs(d @ L).max(axis=1) < 1e-5)[0]
                assert len(k) == 1
                perm.append(int(k[0]))
            out.append(dict(W=np.array(r, dtype=int).tolist(), perm=perm))
        return out

    def spring_fc(self):
        """Exact spring-model force constants (integers, D^2 x covariant components of the SUPERCELL lattice)."""
        idx, cell = self.orc.match_atoms(self.S.tolist(), self.ph.supercell)
        T = np.array(cell["fc"], dtype=np.int64)[idx][:, idx]  # covariant components of the unit-cell lattice
        M = np.array(self.S, dtype=np.int64).T
        return reduce_gcd(np.einsum("ka,ijab,lb->ijkl", M, T, M))

    # Phi_F = F Phi F^T (covariant lattice components)  <->  Cartesian Phi
    def to_cart(self, xf):
        return np.einsum("ka,ijab,lb->ijkl", self.Finv, np.asarray(xf, dtype=float), self.Finv)

    def to_frame(self, x):
        return np.einsum("ka,ijab,lb->ijkl", self.F, np.asarray(x, dtype=float), self.F)

    def record(self):
        rec = dict(np=self.np_, ns=self.ns, d=3, perms=self.perms.tolist(), p2s=self.p2s.tolist(), s2p=self.s2p.tolist(),
                   log_s2pp=self.log_s2pp.tolist(), log_nsym=self.log_nsym.tolist())
        if self.ops is not None:
            rec["ops"] = self.ops
            rec["G"] = self.G.tolist()
        return rec

    # ---- integer definitions, only to PROPOSE inputs ---------------------
    def full_of(self, c):
        f = np.zeros((self.ns, self.ns, 3, 3), dtype=np.int64)
        for i in range(self.ns):
            f[i] = c[self.s2pp[i]][self.perms[self.nsym[i]]]
        return f

    def proj_def(self, f):
        n = self.ns
        col = f.sum(axis=0, keepdims=True)
        row = f.sum(axis=1, keepdims=True)
        tot = f.sum(axis=(0, 1), keepdims=True)
        y = n * n * f - n * col - n * row + tot
        return reduce_gcd(y + np.transpose(y, (1, 0, 3, 2)))

    def sg_mean(self, f):
        acc = np.zeros_like(f)
        for op in self.ops:
            W = np.array(op["W"], dtype=np.int64)
            p = np.array(op["perm"])
            g = f[p][:, p]
            acc += np.einsum("ak,ijab,bl->ijkl", W, g, W)
        return reduce_gcd(acc)


def reduce_gcd(a):
    g = int(np.gcd.reduce(np.abs(a).ravel()))
    return a // g if g > 1 else a


# --------------------------------------------------------------------------
# projection of real arrays to exact rationals
# --------------------------------------------------------------------------
def arr_lit(ints, den=1):
    ints = [int(v) for v in np.asarray(ints).ravel()]
    g = den
    for v in ints:
        g = math.gcd(g, abs(v))
        if g == 1:
            break
    if g > 1:
        ints = [v // g for v in ints]
        den //= g
    return dict(den=int(den), a=ints, ok=True)


UNREPRESENTABLE = dict(den=1, a=[], ok=True)


def project(a, K, flags):
    """float array -> literal [den, a, ok]; updates flags['exact'] / flags['bitexact'] / flags['resid']."""
    a = np.asarray(a, dtype=float)
    if not np.all(np.isfinite(a)):
        flags["exact"] = False
        return UNREPRESENTABLE
    y = a * float(K)
    r = np.rint(y)
    if np.abs(r).max(initial=0.0) * 64 >= INT_LIMIT:
        flags["exact"] = False
        return UNREPRESENTABLE
    resid = float(np.abs(y - r).max(initial=0.0)) / K
    flags["resid"] = max(flags.get("resid", 0.0), resid)
    if resid > TOL * max(1.0, float(np.abs(a).max(initial=0.0))):
        flags["exact"] = False
    if not np.array_equal(y, r):
        flags["bitexact"] = False
    return arr_lit(r.astype(np.int64), K)


def same_or(again, first_lit, K, flags, also_bit=True):
    """literal for the `again` field: [same |-> TRUE] when the second result is the first."""
    f2 = dict(exact=True, bitexact=True)
    lit = project(again, K, f2)
    if f2["exact"] and lit == first_lit:
        if also_bit and not f2["bitexact"]:
            flags["bitexact"] = False
        return dict(same=True)
    if not f2["exact"]:
        K2 = K * K
        f3 = dict(exact=True, bitexact=True)
        lit = project(again, K2, f3) if K2 < 10 ** 8 else UNREPRESENTABLE
        if not f3["exact"]:
            lit = UNREPRESENTABLE
    return dict(same=False, v=lit)


def denom(ns, level):
    return 2 * (2 * ns * ns) ** level


# --------------------------------------------------------------------------
# the real calls
# --------------------------------------------------------------------------
class PhonopyRaised(Exception):
    def __init__(self, where, exc):
        super().__init__("%s: %s: %s" % (where, type(exc).__name__, exc))


@contextlib.contextmanager
def _quiet():
    with contextlib.redirect_stdout(io.StringIO()) as s:
        yield s


@contextlib.contextmanager
def no_extension():
    """Make `import phonopy._phonopy` fail so that the Python fall-back branch runs."""
    import phonopy

    saved = sys.modules.get("phonopy._phonopy")
    had_attr = hasattr(phonopy, "_phonopy")
    attr = getattr(phonopy, "_phonopy", None)
    sys.modules["phonopy._phonopy"] = None
    try:
        yield
    finally:
        if saved is not None:
            sys.modules["phonopy._phonopy"] = saved
        else:
            sys.modules.pop("phonopy._phonopy", None)
        if had_attr:
            phonopy._phonopy = attr


def f64(a):
    return np.array(a, dtype="double", order="C")


def api_symmetrize(rs, x, level):
    ph = rs.ph
    with _quiet():
        ph.force_constants = f64(x)
        ph.symmetrize_force_constants(level=level, show_drift=False)
    return np.array(ph.force_constants)


def fn_full(x, level):
    a = f64(x)
    FCM.symmetrize_force_constants(a, level=level)
    return a


def fn_py(x, level):
    a = f64(x)
    with no_extension():
        FCM.symmetrize_force_constants(a, level=level)
    return a


def fn_compact(rs, x, level):
    a = f64(x)
    FCM.symmetrize_compact_force_constants(a, rs.prim, level=level)
    return a


def fn_transpose(rs, x):
    import phonopy._phonopy as phonoc

    a = f64(x)
    prim = rs.prim
    s2pp, nsym = FCM.get_nsym_list_and_s2pp(prim.s2p_map, prim.p2p_map, prim.atomic_permutations)
    phonoc.transpose_compact_fc(a, prim.atomic_permutations, s2pp, prim.p2s_map, nsym)
    return a


def fn_drift(rs, x):
    a = f64(x)
    with _quiet() as s:
        FCM.show_drift_force_constants(a, primitive=rs.prim, values_only=True)
    return a, s.getvalue()


def parse_drift(text, flags):
    """'%f (%s%s) %f (%s%s)' -> [first, second] = [num, den, k, l] (printed with 6 decimals)."""
    import re
    from fractions import Fraction

    m = re.match(r"\s*(-?[\d.]+(?:e[-+]?\d+)?) \(([xyz])([xyz])\) (-?[\d.]+(?:e[-+]?\d+)?) \(([xyz])([xyz])\)\s*$", text)
    if not m:
        flags["exact"] = False
        z = dict(num=0, den=1, k=0, l=0)
        return dict(first=z, second=z)
    out = []
    for v, a, b in ((m.group(1), m.group(2), m.group(3)), (m.group(4), m.group(5), m.group(6))):
        fr = Fraction(v).limit_denominator(10 ** 6)
        out.append(dict(num=fr.numerator, den=fr.denominator, k="xyz".index(a), l="xyz".index(b)))
    return dict(first=out[0], second=out[1])


def fn_expand(rs, x):
    with _quiet():
        return FCM.compact_fc_to_full_fc(rs.prim, f64(x))


def fn_tocompact(rs, x):
    with _quiet():
        return FCM.full_fc_to_compact_fc(rs.prim, f64(x))


def api_sg(rs, x):
    ph = rs.ph
    with _quiet():
        ph.force_constants = f64(x)
        ph.symmetrize_force_constants_by_space_group(show_drift=False)
    return np.array(ph.force_constants)


def fn_sg_direct(rs, x):
    a = f64(x)
    sc = rs.ph.supercell
    FCM.set_tensor_symmetry_PJ(a, sc.cell.T, sc.scaled_positions, rs.ph.symmetry)
    return a


def execute(rs, route, level, x, via_api=True):
    """Run one case on the real code; return the obs record (literals)."""
    ns = rs.ns
    fl = dict(exact=True, bitexact=True)
    obs = {}
    if route in ("full", "py"):
        K = denom(ns, level)
        if route == "py":
            out = fn_py(x, level)
            again = fn_py(out, level)
        else:
            out = api_symmetrize(rs, x, level) if via_api else fn_full(x, level)
            again = fn_full(out, level)
        obs["out"] = project(out, K, fl)
        obs["again"] = same_or(again, obs["out"], K, fl)
    elif route == "compact":
        K = denom(ns, level)
        out = api_symmetrize(rs, x, level) if via_api else fn_compact(rs, x, level)
        again = fn_compact(rs, out, level)
        obs["out"] = project(out, K, fl)
        obs["again"] = same_or(again, obs["out"], K, fl)
        f2 = dict(exact=True, bitexact=True)  # converters go through a float similarity transform: not bit-exact
        xfull = fn_expand(rs, x)
        obs["xfull"] = project(xfull, 1, f2)
        obs["outfull"] = project(fn_expand(rs, out), K, f2)
        obs["fullsym"] = project(fn_full(xfull, level), K, f2)
        fl["exact"] = fl["exact"] and f2["exact"]
    elif route == "transpose":
        out = fn_transpose(rs, x)
        obs["out"] = project(out, 1, fl)
        obs["again"] = same_or(fn_transpose(rs, out), arr_lit(np.asarray(x)), 1, fl)
    elif route == "drift":
        out, text = fn_drift(rs, x)
        obs["out"] = project(out, 1, fl)
        obs["shown"] = parse_drift(text, fl)
    elif route == "expand":
        out = fn_expand(rs, x)
        obs["out"] = project(out, 1, fl)
        obs["back"] = project(fn_tocompact(rs, out), 1, fl)
    elif route == "tocompact":
        out = fn_tocompact(rs, x)
        obs["out"] = project(out, 1, fl)
        f2 = dict(exact=True, bitexact=True)
        obs["back"] = project(fn_expand(rs, out), 1, f2)
        fl["exact"] = fl["exact"] and f2["exact"]
    elif route == "sg":
        # x is given in covariant lattice components; the real calls work on the Cartesian array
        K = len(rs.ops)
        xc = rs.to_cart(x)
        outc = api_sg(rs, xc)
        obs["out"] = project(rs.to_frame(outc), K, fl)
        obs["direct"] = project(rs.to_frame(fn_sg_direct(rs, xc)), K, fl)
        obs["again"] = same_or(rs.to_frame(api_sg(rs, outc)), obs["out"], K, fl, also_bit=False)
    else:
        raise ValueError(route)
    obs["exact"] = bool(fl["exact"])
    obs["bitexact"] = bool(fl["bitexact"])
    return obs, fl.get("resid", 0.0)
