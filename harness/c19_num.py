"""C19 - interpretation of the real-valued primitives named by spec/RandomDisp.tla and
spec/ThermalDisp.tla (DESIGN 2.3): harmonic canonical covariance of a supercell from the
oracle's exact force constants, mean-square displacement matrices from the oracle's exact
lattice Fourier series.  Nothing here calls phonopy numerics; numpy.linalg.eigh and exp only.

Units: force constants eV/A^2, masses amu, frequencies THz, displacements A.  The base
constants are the repository's (2006 CODATA) values written out literally, so a change of a
base or derived constant in phonopy/units.py shows up as a disagreement."""
from __future__ import annotations

import numpy as np

KB_J = 1.3806504e-23          # J/K
PLANCK_EVS = 4.13566733e-15   # eV s
EV_J = 1.60217733e-19         # J
AMU_KG = 1.6605402e-27        # kg
ANG_M = 1.0e-10               # m
HBAR_J = PLANCK_EVS * EV_J / (2 * np.pi)   # J s


def freq_thz(lam):
    """eigenvalue of M^-1/2 Phi M^-1/2 (eV/A^2/amu) -> frequency in THz (|.| for negative)."""
    return np.sqrt(np.abs(lam) * EV_J / AMU_KG) / ANG_M / (2 * np.pi) / 1e12


def mode_a2(f_thz, T, stat):
    """<Q^2> of a unit-mass (1 amu) harmonic oscillator of frequency f (THz) in A^2:
    quantum  hbar/(2 omega) (1 + 2 n),  classical  k_B T / omega^2."""
    f = np.asarray(f_thz, dtype=float)
    om = 2 * np.pi * f * 1e12
    if stat == "classical":
        return KB_J * T / (AMU_KG * om ** 2) / ANG_M ** 2
    if T > 0:
        with np.errstate(over="ignore"):
            n = 1.0 / np.expm1(HBAR_J * om / (KB_J * T))
    else:
        n = np.zeros_like(f)
    return HBAR_J / (2 * AMU_KG * om) * (1 + 2 * n) / ANG_M ** 2


def supercell_modes(Phi, masses):
    """Phi (n,n,3,3), masses (n,) -> (freq THz ascending, V (3n,3n) orthonormal columns, msq)."""
    n = len(masses)
    msq = np.repeat(np.sqrt(np.asarray(masses, dtype=float)), 3)
    D = np.asarray(Phi, dtype=float).transpose(0, 2, 1, 3).reshape(3 * n, 3 * n) / np.outer(msq, msq)
    D = 0.5 * (D + D.T)
    lam, V = np.linalg.eigh(D)
    return freq_thz(lam), lam, V, msq


def levels(freqs, rel=1e-6, floor=1e-4):
    """distinct frequency levels (ascending); everything below `floor` THz is level 0 (acoustic zero)."""
    f = np.sort(np.asarray(freqs).ravel())
    lv = [0.0]
    for x in f:
        if x < floor:
            continue
        if lv[-1] == 0.0 or x > lv[-1] * (1 + rel) + 1e-9:
            lv.append(float(x))
    return lv


def gap_value(lv, k):
    """a value strictly between level k and level k+1 (k = 0: between 0 and the first level),
    chosen where the gap is wide: falls back to the widest gap at or above k."""
    k = min(k, len(lv) - 2)
    best = None
    for j in range(k, len(lv) - 1):
        lo, hi = lv[j], lv[j + 1]
        if (hi - lo) > 1e-3 * max(hi, 1e-3):
            best = j
            break
    if best is None:
        best = k
    lo, hi = lv[best], lv[best + 1]
    return 0.5 * (lo + hi)


def covariance(Phi, masses, T, stat, cutoff):
    """harmonic canonical displacement covariance (3n,3n) of the supercell, modes with
    f <= cutoff removed; also the mass-weighted pseudo-inverse the code reports as uu_inv."""
    f, lam, V, msq = supercell_modes(Phi, masses)
    keep = f > cutoff
    a2 = np.zeros_like(f)
    a2[keep] = mode_a2(f[keep], T, stat)
    C = (V * a2) @ V.T / np.outer(msq, msq)
    with np.errstate(divide="ignore"):
        inv = np.where(keep & (a2 > 0), 1.0 / np.where(a2 > 0, a2, 1), 0.0)
    Cinv_mw = (V * inv) @ V.T * np.outer(msq, msq)      # M^1/2 a^-2(D) M^1/2
    proj = (V * keep.astype(float)) @ V.T
    return dict(C=C, Cinv=Cinv_mw, f=f, keep=keep, nkeep=int(keep.sum()), proj=proj, msq=msq,
                margin=float(np.min(np.abs(f - cutoff) / np.maximum(f, cutoff))) if len(f) else 1.0)


def to4(C, n):
    return C.reshape(n, 3, n, 3).transpose(0, 2, 1, 3)


def relerr(a, b):
    a = np.asarray(a)
    b = np.asarray(b)
    s = max(float(np.abs(b).max()), 1e-300)
    return float(np.abs(a - b).max() / s)


def mesh_modes(ss, qpoints):
    """[(frequencies THz (signed), eigenvectors)] of the series at every sampled q."""
    return [ss.modes(q) for q in qpoints]


def msd_matrices(modes, masses, T, fmin, fmax):
    """B_k = (1/Nq) sum_{q,nu : fmin < f < fmax} a2(f, T) e_k e_k^dagger / m_k   (n_prim,3,3) complex;
    also the closest relative approach of a frequency to a window edge and the number of modes selected."""
    n = len(masses)
    B = np.zeros((n, 3, 3), dtype=complex)
    margin = 1.0
    nsel = 0
    for f, e in modes:
        for nu in range(3 * n):
            for edge in (fmin, fmax):
                if edge is not None:
                    margin = min(margin, abs(f[nu] - edge) / max(abs(f[nu]), abs(edge), 1e-12))
            if not (f[nu] > fmin):
                continue
            if fmax is not None and not (f[nu] < fmax):
                continue
            nsel += 1
            a2 = float(mode_a2(f[nu], T, "quantum"))
            v = e[:, nu].reshape(n, 3)
            for k in range(n):
                B[k] += a2 * np.outer(v[k], v[k].conj()) / masses[k]
    return B / len(modes), margin, nsel


def mesh_points(mesh, shift_half=(0, 0, 0)):
    """all points of the regular grid (no symmetry), (i + s/2)/n."""
    pts = []
    for i in range(mesh[0]):
        for j in range(mesh[1]):
            for k in range(mesh[2]):
                pts.append([(i + 0.5 * shift_half[0]) / mesh[0], (j + 0.5 * shift_half[1]) / mesh[1],
                            (k + 0.5 * shift_half[2]) / mesh[2]])
    return np.array(pts)


def cif_frame(prim_lattice_rows):
    """definition of the CIF convention: U_cart = (A N) U_cif (A N)^T with A the lattice as column
    vectors and N = diag(|a*|, |b*|, |c*|) (reciprocal lengths without 2 pi), reciprocal vectors
    by cross products."""
    a, b, c = np.asarray(prim_lattice_rows, dtype=float)
    vol = np.dot(a, np.cross(b, c))
    rec = np.array([np.cross(b, c), np.cross(c, a), np.cross(a, b)]) / vol
    N = np.diag([np.linalg.norm(r) for r in rec])
    AN = np.array([a, b, c]).T @ N
    return AN


class SuperSeries:
    """Dynamical matrix of the primitive cell as phonopy DEFINES it from supercell force constants:
    D(q)[k a, k' b] = sum_{j in class k'} Phi[s_k, j]_{ab} / sqrt(m_k m_k') * mean over the shortest
    periodic images r of (x_j - x_{s_k}) of exp(2 pi i q.r)      (q, r in primitive coordinates).
    Inputs: the exact force constants and the geometry of the real cells (positions, lattices:
    C04's subject); minimum images by brute force."""

    def __init__(self, Phi, super_cart, super_lattice, super_masses, prim_lattice, prim_cart, symprec=1e-5):
        self.Lp = np.asarray(prim_lattice, dtype=float)
        Lpinv = np.linalg.inv(self.Lp)
        Ls = np.asarray(super_lattice, dtype=float)
        pos = np.asarray(super_cart, dtype=float)
        ppos = np.asarray(prim_cart, dtype=float) @ Lpinv
        n = len(pos)
        self.np = len(ppos)
        cls = []
        for j in range(n):
            x = pos[j] @ Lpinv
            hit = [k for k in range(self.np) if np.abs((x - ppos[k]) - np.rint(x - ppos[k])).max() < 1e-5]
            assert len(hit) == 1, (j, hit)
            cls.append(hit[0])
        self.cls = cls
        rep = [cls.index(k) for k in range(self.np)]
        self.rep = rep
        self.masses = np.array([super_masses[s] for s in rep], dtype=float)
        grid = np.array([[a, b, c] for a in range(-2, 3) for b in range(-2, 3) for c in range(-2, 3)]) @ Ls
        self.terms = []
        for k, s in enumerate(rep):
            for j in range(n):
                d = pos[j] - pos[s]
                cand = d[None, :] + grid
                ln = np.linalg.norm(cand, axis=1)
                sel = cand[ln < ln.min() + symprec]
                T = np.asarray(Phi[s, j], dtype=float) / np.sqrt(self.masses[k] * self.masses[cls[j]])
                self.terms.append((k, cls[j], sel @ Lpinv, T))

    def dynmat(self, q):
        q = np.asarray(q, dtype=float)
        n = self.np
        dm = np.zeros((3 * n, 3 * n), dtype=complex)
        for k, k2, xs, T in self.terms:
            dm[3 * k:3 * k + 3, 3 * k2:3 * k2 + 3] += T * np.exp(2j * np.pi * (xs @ q)).mean()
        return 0.5 * (dm + dm.conj().T)

    def modes(self, q):
        lam, e = np.linalg.eigh(self.dynmat(q))
        return freq_thz(lam) * np.sign(lam), e
