"""Make /repo's phonopy importable together with a freshly built extension.

Import this first in every driver:  `from harness import bootstrap`.
Environment: VERIF_REPO (default /repo), VERIF_EXT_VARIANT (omp|serial|asan).
"""
import os
import sys

from . import build_ext

REPO = build_ext.REPO
VERIF = build_ext.VERIF
VARIANT = os.environ.get("VERIF_EXT_VARIANT", "omp")

_deps = os.path.join(VERIF, ".deps")
if os.path.isdir(_deps) and _deps not in sys.path:
    sys.path.append(_deps)
if REPO not in sys.path:
    sys.path.insert(0, REPO)

EXT_DIR = build_ext.build(VARIANT, REPO)

import phonopy  # noqa: E402

if EXT_DIR not in phonopy.__path__:
    phonopy.__path__.append(EXT_DIR)

import phonopy._phonopy as phonoc  # noqa: E402,F401

assert os.path.abspath(phonopy.__file__).startswith(os.path.abspath(REPO)), phonopy.__file__
