"""C07 size ladder: symmetrisers on supercells of 64 ... 700 atoms, run in THIS process with whatever
OMP_NUM_THREADS it was started with.

    OMP_NUM_THREADS=4 python -m harness.c07_large '{"seed": 0, "names": ["sc666", "ab555"], "nsample": 60}'

For every crystal and case it prints (JSON) whole-array facts measured on the returned arrays (residuals; the
caller turns them into classes), a digest of every returned array (to compare thread modes) and a sample of
entries with the exact integer ingredients of the definition (spec/SymLarge.tla).  Inputs depend on
(seed, name) only.  Nothing is decided here."""
from __future__ import annotations

import hashlib
import json
import sys
import zlib

import numpy as np

from harness import bootstrap  # noqa: F401
from harness import c07_real as R

AB = dict(sym=["Na", "Cl"], num=[[0, 0, 0], [1, 1, 1]], D=2)
SC = dict(sym=["Na"], num=[[0, 0, 0]], D=1)
LARGE_SPECS = [
    dict(name="sc444", S=[4, 4, 4], P=None, lat="tric", **SC),      # 64
    dict(name="sc666", S=[6, 6, 6], P=None, lat="tric", **SC),      # 216, even multiplicity
    dict(name="ab555", S=[5, 5, 5], P=None, lat="tric", **AB),      # 250, odd multiplicity
    dict(name="ab666", S=[6, 6, 6], P=None, lat="tric", **AB),      # 432
    dict(name="sc777", S=[7, 7, 7], P=None, lat="tric", **SC),      # 343
    dict(name="sc888", S=[8, 8, 8], P=None, lat="tric", **SC),      # 512
    dict(name="ab777", S=[7, 7, 7], P=None, lat="tric", **AB),      # 686
    dict(name="naclF333", S=[3, 3, 3], P="F", lat="cubic", sym=["Na", "Cl"] * 4, num=R.NACL8, D=2),  # 216, np = 2
]


def spec_of(name):
    for sp in LARGE_SPECS:
        if sp["name"] == name:
            return sp
    raise KeyError(name)


def digest(a):
    return hashlib.blake2b(np.ascontiguousarray(a).tobytes(), digest_size=8).hexdigest()


def rel(a, scale):
    return float(np.abs(a).max(initial=0.0)) / max(1.0, scale)


def sample_positions(rng, rows, ns, nsample):
    """(i, j, k, l): self blocks spread over all rows, off-diagonal blocks, first and last rows."""
    pos = []
    diag_rows = sorted(set([rows[0], rows[-1]] + [rows[int(q)] for q in np.linspace(0, len(rows) - 1, nsample // 2)]))
    for i in diag_rows:
        k, l = rng.integers(0, 3, size=2)
        pos.append((i, i, int(k), int(l)))
    while len(pos) < nsample + len(diag_rows) // 2:
        i = rows[int(rng.integers(len(rows)))]
        j = int(rng.integers(ns))
        k, l = rng.integers(0, 3, size=2)
        pos.append((int(i), j, int(k), int(l)))
    return pos


def ingredients(xfull, pos):
    """Exact integer ingredients of the projector at the sampled entries (int64 sums of an integer array)."""
    C = xfull.sum(axis=0)          # C[j,k,l]
    Rw = xfull.sum(axis=1)         # R[i,k,l]
    T = xfull.sum(axis=(0, 1))     # T[k,l]
    out = []
    for (i, j, k, l) in pos:
        out.append(dict(i=i, j=j, k=k, l=l, x=int(xfull[i, j, k, l]), xt=int(xfull[j, i, l, k]),
                        cj=int(C[j, k, l]), ri=int(Rw[i, k, l]), cit=int(C[i, l, k]), rjt=int(Rw[j, l, k]),
                        t=int(T[k, l]), tt=int(T[l, k])))
    return out


def case(rs, route, level, kind, xint, rng, nsample):
    """xint: integer array in the route's layout.  -> event dict (facts as residuals)."""
    ns = rs.ns
    xfull = rs.full_of(xint) if route == "compact" else np.asarray(xint, dtype=np.int64)
    scale = float(np.abs(xint).max(initial=1))
    if route == "full":
        out = R.api_symmetrize(rs, xint, level) if kind != "periodic" else R.fn_full(xint, level)
        again = R.fn_full(out, level)
        ofull = out
        vsfull = 0.0
    else:
        out = R.api_symmetrize(rs, xint, level)
        again = R.fn_compact(rs, out, level)
        ofull = R.fn_expand(rs, out)
        vsfull = rel(ofull - R.fn_full(R.fn_expand(rs, xint), level), scale)
    den = 1 if kind == "sym" else 2 * ns * ns
    rows = [int(v) for v in rs.p2s] if route == "compact" else list(range(ns))
    pos = sample_positions(rng, rows, ns, nsample)
    ing = ingredients(xfull, pos)
    worst = 0.0
    for e in ing:
        for key, (a, b, c, d) in (("out", (e["i"], e["j"], e["k"], e["l"])), ("outt", (e["j"], e["i"], e["l"], e["k"]))):
            y = float(ofull[a, b, c, d]) * den
            r = round(y)
            worst = max(worst, abs(y - r) / den / max(1.0, scale))
            e[key] = int(r)
        e["raw"] = float(ofull[e["i"], e["j"], e["k"], e["l"]]).hex()
    facts = dict(rowsum=rel(ofull.sum(axis=1), scale), colsum=rel(ofull.sum(axis=0), scale),
                 asym=rel(ofull - np.transpose(ofull, (1, 0, 3, 2)), scale), again=rel(again - out, scale),
                 moved=rel(out - xint, scale) if kind == "sym" else 0.0, vsfull=vsfull, sample_resid=worst,
                 finite=bool(np.all(np.isfinite(out))))
    return dict(sys=rs.name, ns=ns, np=rs.np_, route=route, level=level, kind=kind, den=den, facts=facts, sample=ing,
                digest=digest(out))


def handle(name, seed, nsample):
    rng = np.random.default_rng([seed, zlib.crc32(name.encode())])
    rs = R.RealSystem(spec_of(name), rng)
    ns, npp = rs.ns, rs.np_
    xf = rng.integers(-2, 3, size=(ns, ns, 3, 3))
    xc = rng.integers(-2, 3, size=(npp, ns, 3, 3))
    xper = rs.full_of(rng.integers(-2, 3, size=(npp, ns, 3, 3)))
    xsym = rs.proj_def(xf)
    xsymc = rs.proj_def(rs.full_of(xc))[rs.p2s]
    evs = []
    for route, level, kind, x in (("full", 1, "dense", xf), ("full", 2, "periodic", xper), ("full", 2, "dense", xf),
                                  ("full", 1, "sym", xsym), ("compact", 1, "dense", xc), ("compact", 2, "dense", xc),
                                  ("compact", 1, "sym", xsymc)):
        try:
            evs.append(case(rs, route, level, kind, x, rng, nsample))
        except Exception as e:
            evs.append(dict(sys=name, ns=ns, np=npp, route=route, level=level, kind=kind, error=repr(e)))
    return evs


def main():
    import os

    req = json.loads(sys.argv[1])
    import phonopy._phonopy as phonoc

    res = dict(threads=os.environ.get("OMP_NUM_THREADS"), use_openmp=int(phonoc.use_openmp()), events=[])
    for n in req["names"]:
        res["events"] += handle(n, req["seed"], req.get("nsample", 60))
    sys.stdout.write("C07LARGE " + json.dumps(res) + "\n")


if __name__ == "__main__":
    main()
