"""C11 helpers.

1. A numpy realisation of the DEFINITION of spec/Tetrahedron.tla (geometric
   integrals: region {e <= w} cut into simplices, volumes as determinants of
   barycentric coordinates, co-area formula for the density).  It follows the
   TLA+ operators DefJPart / DefIPart / DefNPart / DefGPart one to one and is
   validated against the exact values TLC computes (props/c11.py, step
   "realisation"); it is then used where the inputs are real numbers
   (frequencies of spring-model crystals).  No phonopy code is used here.
2. Drivers of the real kernels for single vertex-value tuples.
3. float -> exact rational projection.
"""
from __future__ import annotations

from fractions import Fraction

import numpy as np

# ---------------------------------------------------------------------------
# 1. the definition, vectorised over M tetrahedra (values v: (M,4), w: (M,))


def _pt_e(M, a):
    p = np.zeros((M, 4))
    p[:, a] = 1.0
    return p


def _pt_p(v, w, a, b):
    """point of edge a-b at level w (barycentric), v[a] < v[b]"""
    p = np.zeros((len(w), 4))
    den = v[:, b] - v[:, a]
    p[:, a] = (v[:, b] - w) / den
    p[:, b] = (w - v[:, a]) / den
    return p


def _vol(T):
    return np.abs(np.linalg.det(np.stack(T, axis=1)))


def _moment(T, i):
    return _vol(T) * (T[0][:, i] + T[1][:, i] + T[2][:, i] + T[3][:, i]) / 4.0


def _region_below(v, w, lo, hi):
    k = len(lo)
    M = len(w)
    if k == 1:
        a = lo[0]
        return [[_pt_e(M, a), _pt_p(v, w, a, hi[0]), _pt_p(v, w, a, hi[1]), _pt_p(v, w, a, hi[2])]]
    if k == 2:
        a1 = _pt_e(M, lo[0]); a2 = _pt_p(v, w, lo[0], hi[0]); a3 = _pt_p(v, w, lo[0], hi[1])
        b1 = _pt_e(M, lo[1]); b2 = _pt_p(v, w, lo[1], hi[0]); b3 = _pt_p(v, w, lo[1], hi[1])
        return [[a1, a2, a3, b3], [a1, a2, b2, b3], [a1, b1, b2, b3]]
    return []


def _region_above3(v, w, lo, hi):
    M = len(w)
    d = hi[0]
    return [_pt_e(M, d), _pt_p(v, w, lo[0], d), _pt_p(v, w, lo[1], d), _pt_p(v, w, lo[2], d)]


def _level_set(v, w, lo, hi):
    k = len(lo)
    if k == 1:
        return [[_pt_p(v, w, lo[0], hi[0]), _pt_p(v, w, lo[0], hi[1]), _pt_p(v, w, lo[0], hi[2])]]
    if k == 3:
        return [[_pt_p(v, w, lo[0], hi[0]), _pt_p(v, w, lo[1], hi[0]), _pt_p(v, w, lo[2], hi[0])]]
    if k == 2:
        p13 = _pt_p(v, w, lo[0], hi[0]); p14 = _pt_p(v, w, lo[0], hi[1])
        p23 = _pt_p(v, w, lo[1], hi[0]); p24 = _pt_p(v, w, lo[1], hi[1])
        return [[p13, p14, p24], [p13, p24, p23]]
    return []


def _part(fn, v, w, lo, side, i, total):
    """one partition Lo|Hi, all rows of v share it"""
    M = len(w)
    lo = sorted(lo)
    hi = [j for j in range(4) if j not in lo]
    k = len(lo)
    if fn == "J":
        if k == 0:
            return np.zeros(M)
        if k == 4:
            return np.ones(M) * (1.0 if total else 0.25)
        if k == 3:
            T = _region_above3(v, w, lo, hi)
            return (1.0 - _vol(T)) if total else (0.25 - _moment(T, i))
        Ts = _region_below(v, w, lo, hi)
        return sum(_vol(T) if total else _moment(T, i) for T in Ts)
    if k == 0 or k == 4:
        return np.zeros(M)
    x = hi[0] if side == "R" else lo[0]
    dist = np.abs(v[:, x] - w)
    out = np.zeros(M)
    for tr in _level_set(v, w, lo, hi):
        dens = 3.0 * _vol([_pt_e(M, x)] + tr) / dist
        out += dens if total else dens * (tr[0][:, i] + tr[1][:, i] + tr[2][:, i]) / 3.0
    return out


def _dispatch(fn, v, w, side, i, total):
    v = np.asarray(v, dtype=float).reshape(-1, 4)
    w = np.broadcast_to(np.asarray(w, dtype=float), (len(v),)).copy()
    below = (v <= w[:, None]) if side == "R" else (v < w[:, None])
    code = below[:, 0] * 1 + below[:, 1] * 2 + below[:, 2] * 4 + below[:, 3] * 8
    out = np.zeros(len(v))
    for c in np.unique(code):
        sel = np.where(code == c)[0]
        lo = [j for j in range(4) if (c >> j) & 1]
        out[sel] = _part(fn, v[sel], w[sel], lo, side, i, total)
    return out


def def_weight(fn, v, w, side="R", i=0):
    """DefW(fn, v, w, side, i+1): weight of vertex i (0-based), one-sided value."""
    return _dispatch(fn, v, w, side, i, False)


def def_total(fn, v, w, side="R"):
    """DefTotal: volume fraction n(w) (fn='J') or its density g(w) (fn='I')."""
    return _dispatch(fn, v, w, side, 0, True)


# ---------------------------------------------------------------------------
# geometry of the division (TetraMesh.tla: Kuhn, SixDef, StarOf)

DIAG_START = [(0, 0, 0), (1, 0, 0), (0, 1, 0), (1, 1, 0)]
DIAG_DIR = [(1, 1, 1), (-1, 1, 1), (1, -1, 1), (1, 1, -1)]


def six_def(d):
    import itertools

    out = []
    for p in itertools.permutations(range(3)):
        c = list(DIAG_START[d])
        T = [tuple(c)]
        for ax in p:
            c[ax] += DIAG_DIR[d][ax]
            T.append(tuple(c))
        out.append(frozenset(T))
    return out


def star_of(d):
    out = set()
    for T in six_def(d):
        for c in T:
            out.add(frozenset(tuple(x[i] - c[i] for i in range(3)) for x in T if x != c))
    return sorted(out, key=lambda S: sorted(S))


# ---------------------------------------------------------------------------
# 3. projection of floats to exact rationals


def to_rat(x, maxden=20_000_000, tol=1e-12):
    """-> ([num, den], exact?)  nearest rational with a bounded denominator"""
    x = float(x)
    if not np.isfinite(x):
        return [0, 1], False
    fr = Fraction(x).limit_denominator(maxden)
    resid = abs(float(fr) - x)
    ok = resid <= tol * max(1.0, abs(x)) and abs(fr.numerator) < 2 ** 30 and fr.denominator < 2 ** 30
    if not ok:
        return [0, 1], False
    return [fr.numerator, fr.denominator], True


# ---------------------------------------------------------------------------
# 2. drivers of the real kernels for one tuple (central vertex first)


class Kernels:
    def __init__(self):
        from harness import bootstrap  # noqa: F401
        import phonopy._phonopy as phonoc
        from phonopy.structure.tetrahedron_method import TetrahedronMethod

        self.phonoc = phonoc
        self.tm_py = TetrahedronMethod(None, lang="Py")
        self.ci_py = [int(c) for c in self.tm_py._central_indices]

    def rows_c(self, v):
        return np.array([list(v)] * 24, dtype="double", order="C")

    def rows_py(self, v):
        rows = []
        for c in self.ci_py:
            others = list(v[1:])
            others.insert(c, v[0])
            rows.append(others)
        return np.array(rows, dtype="double", order="C")

    def weight_c(self, v, w, fn):
        return self.phonoc.tetrahedra_integration_weight(float(w), self.rows_c(v), fn) / 4.0

    def weights_ca(self, v, ws, fn):
        out = np.zeros(len(ws), dtype="double")
        self.phonoc.tetrahedra_integration_weight_at_omegas(out, np.array(ws, dtype="double"), self.rows_c(v), fn)
        return out / 4.0

    def weight_py(self, v, w, fn):
        self.tm_py.set_tetrahedra_omegas(self.rows_py(v))
        return self.tm_py._get_integration_weight_py(float(w), value=fn) / 4.0

    def weights_py_run(self, v, ws, fn):
        """through TetrahedronMethod.run (the public route)"""
        self.tm_py.set_tetrahedra_omegas(self.rows_py(v))
        self.tm_py.run(np.array(ws, dtype="double"), value=fn)
        return np.array(self.tm_py.get_integration_weight()) / 4.0
