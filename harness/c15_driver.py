"""C15 driver: executes the actions of spec/ApiHistory.tla on a real Phonopy
object and projects the real state onto the specification's abstract state.

The projection (abs_state) never calls phonopy numerics: it hashes / compares
array contents, uses object identity and np.shares_memory.  Only the *query*
comparison constructs a second, fresh Phonopy object - that is what the property
is about.
"""
from __future__ import annotations

import copy
import hashlib
import io
import contextlib
import warnings

import numpy as np

from harness import bootstrap  # noqa: F401
from harness.oracle import Oracle

from phonopy import Phonopy
from phonopy.structure.atoms import PhonopyAtoms
from phonopy.harmonic.dynamical_matrix import DynamicalMatrix, DynamicalMatrixGL, DynamicalMatrixWang

warnings.simplefilter("ignore")

SETTERS = ["fc_setter", "nac_setter", "dataset_setter", "masses_setter", "forces_setter"]
GETTERS = ["fc_getter", "nac_getter", "dataset_getter", "masses_getter", "displacements_getter",
           "forces_getter", "primitive_getter", "supercell_getter", "unitcell_getter"]
DM_KINDS = ["qp", "qpgv", "dmq", "gvq", "mesh", "meshgv", "band", "bandgv", "meshfull", "meshlazy", "meshiter"]
MESH_KINDS = ("mesh", "meshgv", "meshfull", "meshlazy", "meshiter")
CONSUMERS = ["tp", "tdos", "moment", "meshdict", "pdos", "td"]
QUERY_KINDS = DM_KINDS + CONSUMERS + ["rdq"]
ENV_OPS = ("MutateHandle", "Drop", "MutateCopy")

WORLDS = {
    # name: (catalogue entry, supercell matrix, primitive matrix)
    "tetab222": ("tetab", [[2, 0, 0], [0, 2, 0], [0, 0, 2]], None),
    "tetabnd": ("tetab", [[1, 1, 0], [-1, 1, 0], [0, 0, 2]], None),
    "naclF": ("nacl", [[1, 0, 0], [0, 1, 0], [0, 0, 1]], "F"),
    "wz221": ("wz", [[2, 0, 0], [0, 2, 0], [0, 0, 1]], None),
}

QPOINTS = np.array([[0.11, 0.23, 0.37], [0.5, 0.0, 0.0], [0.0, 0.0, 0.0], [0.25, 0.31, -0.42]])


def h(*arrs):
    """content hash of arrays / scalars / strings"""
    m = hashlib.blake2b(digest_size=10)
    for a in arrs:
        if a is None:
            m.update(b"<None>")
        elif isinstance(a, str):
            m.update(a.encode())
        else:
            b = np.ascontiguousarray(np.asarray(a, dtype="double"))
            m.update(str(b.shape).encode())
            m.update(b.tobytes())
    return m.hexdigest()


def quiet(f, *a, **k):
    with contextlib.redirect_stdout(io.StringIO()):
        return f(*a, **k)


def mutables(obj, acc=None, depth=0):
    """all mutable containers / arrays reachable from obj: {id: object}"""
    if acc is None:
        acc = {}
    if depth > 6 or id(obj) in acc:
        return acc
    if isinstance(obj, np.ndarray):
        acc[id(obj)] = obj
    elif isinstance(obj, dict):
        acc[id(obj)] = obj
        for v in obj.values():
            mutables(v, acc, depth + 1)
    elif isinstance(obj, (list,)):
        acc[id(obj)] = obj
        for v in obj:
            mutables(v, acc, depth + 1)
    elif isinstance(obj, PhonopyAtoms):
        acc[id(obj)] = obj
        for name in ("_masses", "_scaled_positions", "_cell", "_magnetic_moments"):
            mutables(getattr(obj, name, None), acc, depth + 1)
    return acc


def shares(a, b):
    """do two object graphs share a mutable object (identity) or array memory?"""
    if a is None or b is None:
        return False
    ma, mb = mutables(a), mutables(b)
    if set(ma) & set(mb):
        return True
    aa = [x for x in ma.values() if isinstance(x, np.ndarray)]
    bb = [x for x in mb.values() if isinstance(x, np.ndarray)]
    return any(np.shares_memory(x, y) for x in aa for y in bb)


class World:
    """One crystal + supercell: the exact spring-model force constants of the
    catalogue entry (computed by TLC, harness/oracle.py) and generators of new
    contents for every datum of the abstract state."""

    def __init__(self, name, seed, ctx=None):
        entry, S, P = WORLDS[name]
        self.name, self.S, self.P = name, S, P
        self.orc = Oracle(entry, [S], seed=seed, ctx=ctx)
        self.unitcell = self.orc.unitcell()
        self.ref = self.new_phonopy(self.unitcell)
        self.fc0 = np.ascontiguousarray(self.orc.supercell_fc(S, self.ref.supercell))
        self.scale = float(np.abs(self.fc0).max())
        self.nprim = len(self.ref.primitive)
        self.nsuper = len(self.ref.supercell)
        assert self.nsuper > self.nprim
        self.species_sign = np.array([1.0 if s == self.ref.primitive.symbols[0] else -1.0
                                      for s in self.ref.primitive.symbols])
        if abs(self.species_sign.sum()) > 1e-9:  # not neutral with +-1: make it neutral
            self.species_sign = self.species_sign - self.species_sign.mean()
        # maps, taken once from the pristine reference object
        prim = self.ref.primitive
        self.p2s = np.array(prim.p2s_map)
        self.s2p = np.array(prim.s2p_map)
        self.p2p = dict(prim.p2p_map)
        self.s2pp = np.array([self.p2p[x] for x in self.s2p])  # supercell atom -> primitive index
        sc = self.ref.supercell
        self.u2s = np.array(sc.u2s_map)
        self.u2pp = self.s2pp[self.u2s]  # unit cell atom -> primitive index
        self.base_masses = np.array(prim.masses)
        quiet(self.ref.generate_displacements, distance=0.03)
        self.t1_template = copy.deepcopy(self.ref.dataset)

    def new_phonopy(self, unitcell):
        return quiet(Phonopy, unitcell, supercell_matrix=self.S, primitive_matrix=self.P, log_level=0)

    # ---- content generators (k = counter, rng = numpy Generator) ------------
    def fc_full(self, k, rng, symmetric=False):
        fc = self.fc0 * (1.0 + 0.04 * (k % 11) + 0.013 * (k // 11))
        if not symmetric:
            fc = fc + rng.normal(size=fc.shape) * 0.02 * self.scale
        return np.array(fc, dtype="double", order="C")

    def fc(self, k, rng, layout):
        full = self.fc_full(k, rng)
        if layout == "full":
            return full
        return np.array(full[self.p2s], dtype="double", order="C")

    def nac(self, k, rng, method, perturb):
        z = 0.8 + 0.15 * (k % 23)
        born = np.array([np.eye(3) * z * s for s in self.species_sign])
        eps = np.eye(3) * (2.0 + 0.25 * (k % 11))
        if perturb:
            # "raw DFPT-like" parameters: not invariant under the crystal symmetry, acoustic sum rule
            # violated; symmetrisation moves every element by < 0.04 (contents differ by >= 0.15)
            born = born + rng.uniform(-0.025, 0.025, size=born.shape) + 0.015 * np.eye(3)
            e = rng.uniform(-0.012, 0.012, size=(3, 3))
            eps = eps + e + e.T
        d = {"born": np.array(born, order="C"), "dielectric": np.array(eps, order="C"),
             "factor": 14.4 + 0.1 * (k % 3)}
        if method == "wang":
            d["method"] = "wang"
        elif k % 2:
            d["method"] = "gonze"
        return d

    def masses(self, k, rng):
        return self.base_masses * (1.0 + 0.07 * (k % 13) + 0.011 * (k // 13)) + rng.uniform(0, 0.01, self.nprim)

    def forces_for(self, disp_full, k, rng):
        """harmonic forces for displacements (nsc, natom, 3) from the symmetric content k"""
        fc = self.fc_full(k, rng, symmetric=True)
        return -np.einsum("ijab,sjb->sia", fc, disp_full)

    def dataset(self, k, rng, typ, with_forces):
        if typ == "t1":
            d = copy.deepcopy(self.t1_template)
            amp = 1.0 + 0.1 * (k % 17) + 0.007 * (k // 17)
            for fa in d["first_atoms"]:
                fa["displacement"] = np.array(fa["displacement"], dtype="double") * amp
            if with_forces:
                for fa, f in zip(d["first_atoms"], self.t1_forces(d, k, rng)):
                    fa["forces"] = f
            return d
        disp = rng.normal(size=(3, self.nsuper, 3)) * 0.01
        d = {"displacements": disp}
        if with_forces:
            d["forces"] = self.forces_for(disp, k, rng)
        return d

    def t1_forces(self, d, k, rng):
        full = np.zeros((len(d["first_atoms"]), self.nsuper, 3))
        for i, fa in enumerate(d["first_atoms"]):
            full[i, fa["number"]] = fa["displacement"]
        return [np.array(f, order="C") for f in self.forces_for(full, k, rng)]


def ds_disp_content(ds):
    if ds is None:
        return None
    if "first_atoms" in ds:
        return h(np.array([[fa["number"]] + list(np.asarray(fa["displacement"], dtype=float)) for fa in ds["first_atoms"]]))
    if "displacements" in ds:
        return h(ds["displacements"])
    return h("empty")


def ds_forces_content(ds):
    if ds is None:
        return None
    if "first_atoms" in ds:
        fs = [fa["forces"] for fa in ds["first_atoms"] if "forces" in fa]
        if len(fs) == len(ds["first_atoms"]) and fs:
            return h(np.array(fs))
        return None
    if "forces" in ds:
        return h(ds["forces"])
    return None


def nac_content(d):
    if d is None:
        return None
    return h(d["born"], d["dielectric"], np.array([d["factor"]]), d.get("method", "gonze-default"))


def project_core(ph, s2pp, u2pp, sr_memo, building=None):
    """Projection of a real Phonopy object onto the abstract state of
    spec/ApiHistory.tla (without caller handles and copy).  s2pp / u2pp: the
    primitive-cell index of every supercell / unit-cell atom (taken from the
    pristine object).  sr_memo: provenance memo of the short-range force
    constants of the Gonze-Lee class: they are built lazily inside a query, so
    their bytes are attributed to the (force constants, NAC) contents current
    at a query during which a DynamicalMatrix object that had none acquired
    them (building = the kind of the query just run, None for any other
    operation); bytes that show up any other way count as old."""
    fc = ph._force_constants
    if fc is None:
        layout = "none"
    else:
        fca = np.asarray(fc)
        layout = "full" if fca.shape[0] == fca.shape[1] else "compact"
    nac = ph._nac_params
    nacm = "none" if nac is None else ("wang" if nac.get("method") == "wang" else "gonze")
    pm = ph._primitive._masses
    massS = "cur" if np.array_equal(ph._supercell._masses, pm[s2pp]) else "old"
    massU = "cur" if np.array_equal(ph._unitcell._masses, pm[u2pp]) else "old"
    ds = ph._dataset
    dsT = "none" if ds is None else ("t1" if "first_atoms" in ds else "t2")
    dsF = ds_forces_content(ds) is not None
    dmo = ph._dynamical_matrix
    if dmo is None:
        dm = dict(on=False, fc="cur", shared=False, nac="cur", cls="plain", sr="none")
    else:
        cls = "gonze" if isinstance(dmo, DynamicalMatrixGL) else ("wang" if isinstance(dmo, DynamicalMatrixWang) else "plain")
        dfc = "cur" if (fc is not None and h(dmo._force_constants) == h(fc)) else "old"
        shared = fc is not None and dmo._force_constants is fc
        if cls == "plain":
            dnac = "cur" if nac is None else "old"
        elif nac is None:
            dnac = "old"
        else:
            # (the matrix holds the symmetrised parameters: within 0.04 of the raw ones, see World.nac)
            ok = (np.abs(dmo._born - np.asarray(nac["born"])).max() < 0.06
                  and np.abs(dmo._dielectric - np.asarray(nac["dielectric"])).max() < 0.06
                  and dmo._unit_conversion == nac["factor"])
            dnac = "cur" if ok else "old"
        sr = "none"
        seen_none = sr_memo.setdefault("#dm-without", set())
        if cls == "gonze" and dmo._Gonze_force_constants is None:
            seen_none.add(id(dmo))
            sr_memo.setdefault("#keep", []).append(dmo)  # ids stay unique
        if cls == "gonze" and dmo._Gonze_force_constants is not None:
            key = h(dmo._Gonze_force_constants)
            now = (h(fc) if fc is not None else None, nac_content(nac))
            if building is not None and (id(dmo) in seen_none or building == "dmq"):
                sr_memo.setdefault(key, set()).add(now)
                seen_none.discard(id(dmo))
            sr = "cur" if now in sr_memo.get(key, ()) else "old"
        dm = dict(on=True, fc=dfc, shared=bool(shared), nac=dnac, cls=cls, sr=sr)
    gvo = ph._group_velocity
    gv = "none" if gvo is None else ("cur" if gvo._dynmat is ph._dynamical_matrix else "stale")
    scdo = ph._supercells_with_displacements
    if scdo is None:
        scd = "none"
    else:
        scd = "cur" if scd_matches(ph, scdo, ds) else "old"
    return dict(layout=layout, nacm=nacm, massS=massS, massU=massU, dsT=dsT, dsF=bool(dsF), dm=dm, gv=gv, scd=scd)


def scd_matches(ph, cells, ds):
    if ds is None:
        return False
    pos0 = ph._supercell.positions
    exp = []
    if "first_atoms" in ds:
        for fa in ds["first_atoms"]:
            p = pos0.copy()
            p[fa["number"]] += np.asarray(fa["displacement"], dtype=float)
            exp.append(p)
    elif "displacements" in ds:
        exp = [pos0 + d for d in ds["displacements"]]
    if len(exp) != len(cells):
        return False
    return all(np.abs(c.positions - e).max() < 1e-10 for c, e in zip(cells, exp))


def content_fingerprint(ph):
    """hash of everything the Phonopy object answers from (for EnvFrame)"""
    dm = ph._dynamical_matrix
    parts = [h(ph._force_constants) if ph._force_constants is not None else "0",
             nac_content(ph._nac_params) or "0",
             h(ph._primitive._masses, ph._supercell._masses, ph._unitcell._masses),
             ds_disp_content(ph._dataset) or "0", ds_forces_content(ph._dataset) or "0",
             str(id(dm)), str(id(ph._group_velocity)), str(id(ph._supercells_with_displacements))]
    if dm is not None:
        parts.append(h(dm._force_constants))
        if isinstance(dm, DynamicalMatrixGL) and dm._Gonze_force_constants is not None:
            parts.append(h(dm._Gonze_force_constants))
        if dm.is_nac():
            parts.append(h(dm._born, dm._dielectric))
    return "|".join(parts)


def state_fingerprint(ph, what=("fc", "nac", "mass")):
    """content of what the phonon results are computed from"""
    parts = []
    if "fc" in what:
        parts.append(h(ph._force_constants) if ph._force_constants is not None else "0")
    if "nac" in what:
        parts.append(nac_content(ph._nac_params) or "0")
    if "mass" in what:
        parts.append(h(ph._primitive._masses))
    return "|".join(parts)


class ResultBook:
    """Harness bookkeeping of the result holders of one Phonopy object: the
    contents current when a holder was written (its provenance) and a hash of
    the results it held then (to see that results obtained earlier stay what
    they were)."""

    def __init__(self):
        self.mesh = {}  # id(mesh object) -> fingerprint at creation
        self.rd = {}    # id(generator) -> fingerprint (fc, mass) at creation
        self.qp = None  # fingerprint when run_qpoints / run_band_structure last ran
        self.tp = None  # fingerprint of the mesh the last consumer used
        self.snap = {}  # holder name -> hash of its results when last written
        self.keep = []
        self._last = {}   # what -> (content fingerprint, epoch)

    def epoch(self, ph, what=("fc", "nac", "mass")):
        """version of the contents `what`: a new number whenever the content differs from the one seen at
        the previous call (a content that comes back - NAC set and cleared again - is a new version, as
        in the specification)"""
        fp = state_fingerprint(ph, what)
        last = self._last.get(what)
        if last is None or last[0] != fp:
            last = (fp, (last[1] + 1) if last else 1)
            self._last[what] = last
        return "%s#%d" % ("+".join(what), last[1])

    def project(self, ph):
        from phonopy.phonon.mesh import IterMesh
        now = self.epoch(ph)
        m = ph._mesh
        if m is None:
            mesh = dict(st="none", full=False, kind="run", own=False)
        else:
            if id(m) not in self.mesh:  # created outside a recorded query: attribute to now
                self.mesh[id(m)] = now
                self.keep.append(m)
            it = isinstance(m, IterMesh)
            kind = "iter" if it else ("lazy" if m._frequencies is None else "run")
            full = bool(m.with_eigenvectors and np.prod(m.mesh_numbers) == len(m.ir_grid_points))
            mesh = dict(st="cur" if self.mesh[id(m)] == now else "old", full=full, kind=kind,
                        own=bool(m._dynamical_matrix is ph._dynamical_matrix))
        g = getattr(ph, "_random_displacements", None)
        if g is None:
            rd = "none"
        else:
            fp = self.epoch(ph, ("fc", "mass"))
            if id(g) not in self.rd:
                self.rd[id(g)] = fp
                self.keep.append(g)
            rd = "cur" if self.rd[id(g)] == fp else "old"
        qp = "none" if self.qp is None else ("cur" if self.qp == now else "old")
        tp = "none" if self.tp is None else ("cur" if self.tp == now else "old")
        return dict(mesh=mesh, rd=rd, qp=qp, tp=tp)

    @staticmethod
    def holders(ph):
        """hashes of the results currently retrievable from the object (never
        triggering a lazy computation)"""
        out = {}
        q = getattr(ph, "_qpoints", None)
        if q is not None:
            out["qpoints"] = h(q.frequencies)
        b = ph._band_structure
        if b is not None:
            out["band"] = h(np.concatenate([np.ravel(x) for x in b.frequencies]))
        m = ph._mesh
        if m is not None and getattr(m, "_frequencies", None) is not None:
            out["mesh"] = h(m._frequencies)
        t = ph._thermal_properties
        if t is not None and t.thermal_properties is not None:
            out["tp"] = h(*[np.nan_to_num(np.asarray(x, dtype=float)) for x in t.thermal_properties])
        d = ph._total_dos
        if d is not None:
            out["tdos"] = h(d.dos)
        pd = ph._pdos
        if pd is not None:
            out["pdos"] = h(pd.projected_dos)
        td = ph._thermal_displacements
        if td is not None and td.thermal_displacements is not None:
            out["td"] = h(np.nan_to_num(td.thermal_displacements))
        return out

    def check_frozen(self, ph, rewritten):
        """results obtained earlier are still what they were; `rewritten`: the
        holders the call just made wrote"""
        cur = self.holders(ph)
        ok = all(self.snap[k] == v for k, v in cur.items() if k in self.snap and k not in rewritten)
        self.snap = cur
        return ok


def index_maps(ph):
    """primitive-cell index of every supercell / unit-cell atom of a pristine object"""
    prim = ph._primitive
    p2p = dict(prim.p2p_map)
    s2pp = np.array([p2p[x] for x in prim.s2p_map])
    u2pp = s2pp[np.array(ph._supercell.u2s_map)]
    return s2pp, u2pp


class Handle:
    def __init__(self, cls, obj, belief):
        self.cls, self.obj, self.belief = cls, obj, belief
        self.grp = 0  # handles with the same grp are the same Python object


class Driver:
    """One real Phonopy object, the objects its caller holds, one copy."""

    def __init__(self, world, rng, max_held=2, perturb_nac=False):
        self.w = world
        self.rng = rng
        self.max_held = max_held
        self.perturb_nac = perturb_nac
        self.ph = world.new_phonopy(world.unitcell)
        self.held = []
        self.cp = None
        self.cp_belief = None
        self.k = 0  # content counter
        self.sr_memo = {}  # hash(short-range fc) -> (fc content, nac content) at first sighting
        self.keepalive = []  # objects kept alive so that ids are never reused
        self.margins = []  # observed |real - fresh| at queries
        self.book = ResultBook()
        self.witness = {}  # id(caller's nac dict) -> dict(obj=second Phonopy object sharing it, ref=frequencies)
        self.mesh_kind = None  # how the mesh the object holds was set up (to set up the fresh one alike)
        self.nac_seen = {}

    # ---------------------------------------------------------------- content
    def fresh_k(self):
        self.k += 1
        return self.k

    def internal(self, slot):
        ph = self.ph
        if slot == "fc":
            return ph._force_constants
        if slot == "nac":
            return ph._nac_params
        if slot == "ds":
            return ph._dataset
        if slot == "dsF":
            ds = ph._dataset
            if ds is None:
                return None
            if "forces" in ds:
                return ds["forces"]
            if "first_atoms" in ds:
                return [fa.get("forces") for fa in ds["first_atoms"]]
            return None
        if slot == "mass":
            return ph._primitive
        if slot == "massS":
            return ph._supercell
        if slot == "massU":
            return ph._unitcell
        raise KeyError(slot)

    @staticmethod
    def slot_of(cls):
        return {"fc_setter": "fc", "fc_getter": "fc", "nac_setter": "nac", "nac_getter": "nac",
                "dataset_setter": "ds", "dataset_getter": "ds", "displacements_getter": "ds",
                "forces_setter": "dsF", "forces_getter": "dsF", "supercell_getter": "massS",
                "unitcell_getter": "massU"}.get(cls, "mass")

    def handle_content(self, hd):
        o = hd.obj
        c = hd.cls
        if c in ("fc_setter", "fc_getter", "masses_setter", "masses_getter", "displacements_getter"):
            return h(o)
        if c in ("forces_setter", "forces_getter"):
            return h(np.array(o))
        if c in ("nac_setter", "nac_getter"):
            # the caller's dict: keys, identities of its arrays, contents; and - the same dict being held
            # by a second object - that object still answers as from what the caller made the dict
            return h(",".join(sorted(o)), "%d,%d" % (id(o["born"]), id(o["dielectric"])), nac_content(o),
                     self.witness_state(hd))
        if c in ("dataset_setter", "dataset_getter"):
            return h(ds_disp_content(o) or "")  # the displacements (forces: separate slot)
        return h(o._masses)  # cell objects: the aspect the specification models

    # -- a second Phonopy object (is_symmetry=False, so it uses the parameters as they are) that was given
    #    the very dict the caller handed to nac_params=: it has to keep answering like a fresh object given
    #    what the caller made that dict
    WITNESS_Q = [0.13, 0.21, 0.07]

    def witness_object(self, d):
        w = self.w
        ob = quiet(Phonopy, w.unitcell, supercell_matrix=w.S, primitive_matrix=w.P, is_symmetry=False, log_level=0)
        ob.force_constants = np.array(w.fc0, dtype="double", order="C")
        ob.nac_params = d
        return ob

    def witness_reference(self, d):
        ref = self.witness_object(copy.deepcopy(d))
        return np.array(quiet(ref.get_frequencies, self.WITNESS_Q))

    def witness_state(self, hd):
        wit = self.witness.get(id(hd.obj))
        if wit is None:
            return "no-witness"
        if wit.get("refresh"):  # the caller itself has just changed the dict
            wit["ref"] = self.witness_reference(hd.obj)
            wit["refresh"] = False
        try:
            f = np.array(quiet(wit["obj"].get_frequencies, self.WITNESS_Q))  # (rebuilds from the shared dict)
            same = f.shape == wit["ref"].shape and float(np.abs(f - wit["ref"]).max()) <= 1e-9
        except Exception:
            same = False
        return "witness-agrees" if same else "witness-differs"

    def handle_alias(self, hd):
        slot = self.slot_of(hd.cls)
        internal = self.internal(slot)
        if internal is None:
            return False
        if hd.cls == "displacements_getter":
            ds = self.ph._dataset
            return isinstance(ds, dict) and "displacements" in ds and shares(hd.obj, ds["displacements"])
        if hd.cls in ("masses_setter", "masses_getter"):
            return any(shares(hd.obj, c._masses) for c in (self.ph._primitive, self.ph._supercell, self.ph._unitcell))
        if slot in ("mass", "massS", "massU"):
            return hd.obj is internal or shares(hd.obj, internal)
        return shares(hd.obj, internal)

    # ------------------------------------------------------------- projection
    def content_fingerprint(self):
        return content_fingerprint(self.ph)

    def abs_state(self, building=None):
        ph, w = self.ph, self.w
        core = project_core(ph, w.s2pp, w.u2pp, self.sr_memo, building)
        # copy
        if self.cp is None:
            cp = dict(on=False, ok=True, shared=False)
        else:
            c = self.cp
            sh = any(a is b or shares(a, b) for a, b in
                     ((c._unitcell, ph._unitcell), (c._supercell, ph._supercell), (c._primitive, ph._primitive))) \
                or c._symmetry is ph._symmetry or c._primitive_symmetry is ph._primitive_symmetry \
                or (ph._force_constants is not None and c._force_constants is ph._force_constants)
            cp = dict(on=True, ok=h(c._primitive._masses) == self.cp_belief, shared=bool(sh))
        canon = {}
        for x in self.held:  # group ids are names: number them by first occurrence
            canon.setdefault(x.grp, len(canon) + 1)
        held = [dict(cls=x.cls, alias=bool(self.handle_alias(x)), ok=self.handle_content(x) == x.belief,
                     grp=canon[x.grp]) for x in self.held]
        return dict(core, cp=cp, held=held, rs=self.book.project(ph))

    def scd_matches(self, cells, ds):
        return scd_matches(self.ph, cells, ds)

    # ------------------------------------------------------------------ steps
    def room(self):
        return len(self.held) < self.max_held

    def add_handle(self, cls, obj, belief=None):
        hd = Handle(cls, obj, None)
        hd.belief = self.handle_content(hd) if belief is None else belief
        def linked(x):  # one object, or the dataset dict and the displacement array inside it
            if x.obj is obj:
                return True
            pair = {x.cls, cls}
            return (pair <= {"dataset_setter", "dataset_getter", "displacements_getter"} and len(pair) == 2
                    and "displacements_getter" in pair and shares(x.obj, obj))
        same = [x for x in self.held if linked(x)]
        if same:
            hd.grp = same[0].grp
        else:
            used = {x.grp for x in self.held}
            hd.grp = min(g for g in range(1, len(self.held) + 2) if g not in used)
        self.held.append(hd)
        self.keepalive.append(obj)

    def step(self, op):
        """Execute one action (a dict like the specification's `last`) on the
        real object.  Returns the event record for the trace specification."""
        name = op["op"]
        ev = dict(op=name, lay=op.get("lay", "none"), m=op.get("m", "none"), keep=bool(op.get("keep", False)),
                  f=bool(op.get("f", False)), typ=op.get("typ", "none"), cls=op.get("cls", "none"),
                  k=op.get("k", "none"), i=int(op.get("i", 0)), chg=True, own=bool(op.get("own", True)),
                  via=op.get("via", "copy"), snapok=True, refused=bool(op.get("refused", False)),
                  err=False, stored=True, qok=True, frame=True, errtext="")
        before = self.content_fingerprint() if (name in ENV_OPS or ev["refused"]) else None
        try:
            getattr(self, "do_" + name)(op, ev)
        except Exception as e:  # an exception raised by phonopy
            ev["err"] = True
            ev["errtext"] = "%s: %s" % (type(e).__name__, str(e)[:200])
        if before is not None:
            ev["frame"] = self.content_fingerprint() == before
        ev["obs"] = self.abs_state(op.get("k") if (name == "Query" and not ev["err"]) else None)
        if name == "Query" and not ev["err"] and op.get("k") in DM_KINDS:
            d, k = ev["obs"]["dm"], op["k"]
            coherent = d["fc"] == "cur" and d["nac"] == "cur" and d["sr"] != "old" and \
                (ev["obs"]["gv"] != "stale" or k not in ("qpgv", "gvq", "meshgv", "bandgv"))
            if not coherent:  # (only after the caller changed internal state through an alias)
                if k in MESH_KINDS and self.ph._mesh is not None:
                    self.book.mesh[id(self.ph._mesh)] = "stale"
                elif k in ("qp", "qpgv", "band", "bandgv"):
                    self.book.qp = "stale"
                ev["obs"]["rs"] = self.book.project(self.ph)
        ev["snapok"] = self.book.check_frozen(self.ph, ev.pop("rewritten", ()) if not ev["err"] else ())
        return ev

    # setters ---------------------------------------------------------------
    def do_SetFC(self, op, ev):
        arr = self.w.fc(self.fresh_k(), self.rng, op["lay"])
        self.keepalive.append(arr)
        keep = bool(op.get("keep"))
        own = bool(op.get("own", True))
        # the form in which the force constants are handed in: 0 = a C-contiguous float64 array owning
        # its data (stored without a copy); 1 a view; 2 Fortran order; 3 nested list; 4 float32
        how = (0 if own else 1 + self.k % 4) if keep else self.k % 4
        if how == 3 and not keep and self.ph._dynamical_matrix is None:
            how = 0
        if how == 1:
            big = np.zeros((arr.shape[0] + 1,) + arr.shape[1:])
            big[1:] = arr
            self.keepalive.append(big)
            handed = big[1:]
        elif how == 2:
            handed = np.asfortranarray(arr)
        elif how == 3:
            handed = arr.tolist()
        elif how == 4:
            handed = arr.astype("float32")
        else:
            handed = arr
        want = h(np.asarray(handed, dtype="double"))
        self.keepalive.append(handed)
        self.ph.force_constants = handed
        ev["stored"] = self.ph._force_constants is not None and h(self.ph._force_constants) == want \
            and isinstance(self.ph._force_constants, np.ndarray) and self.ph._force_constants.dtype == np.dtype("double")
        if keep and self.room():
            self.add_handle("fc_setter", handed)

    def do_SetNAC(self, op, ev):
        d = self.w.nac(self.fresh_k(), self.rng, op["m"], self.perturb_nac)
        want = nac_content(d)
        self.keepalive.append(d)
        keep = bool(op.get("keep")) and self.room()
        belief = None
        if keep:
            # the caller gives the same dict to a second object as well
            self.witness[id(d)] = dict(obj=self.witness_object(d), ref=self.witness_reference(d), refresh=False)
            belief = self.handle_content(Handle("nac_setter", d, None))  # what the caller hands in
        self.ph.nac_params = d
        ev["stored"] = nac_content(self.ph._nac_params) == want
        if keep:
            self.add_handle("nac_setter", d, belief)

    def do_ClearNAC(self, op, ev):
        self.ph.nac_params = None
        ev["stored"] = self.ph._nac_params is None

    def do_SetMasses(self, op, ev):
        m = np.array(self.w.masses(self.fresh_k(), self.rng))
        want = h(m)
        self.keepalive.append(m)
        self.ph.masses = m
        ev["stored"] = h(self.ph._primitive._masses) == want
        if op.get("keep") and self.room():
            self.add_handle("masses_setter", m)

    def do_Symmetrize(self, op, ev):
        if op.get("refused"):
            self.ph.symmetrize_force_constants()
            return
        before = h(self.ph._force_constants)
        quiet(self.ph.symmetrize_force_constants, level=int(self.rng.integers(1, 3)))
        ev["chg"] = h(self.ph._force_constants) != before

    def do_SymmetrizeSG(self, op, ev):
        before = h(self.ph._force_constants)
        quiet(self.ph.symmetrize_force_constants_by_space_group)
        ev["chg"] = h(self.ph._force_constants) != before

    def do_Cutoff(self, op, ev):
        lat = self.ph._supercell.cell
        r = float(np.linalg.norm(lat, axis=1).min()) * float(self.rng.uniform(0.35, 0.6))
        before = h(self.ph._force_constants)
        quiet(self.ph.set_force_constants_zero_with_radius, r)
        ev["chg"] = h(self.ph._force_constants) != before

    def do_SetDataset(self, op, ev):
        k = self.fresh_k()
        d = self.w.dataset(k, self.rng, op["typ"], op["f"])
        wd, wf = ds_disp_content(d), ds_forces_content(d)
        self.keepalive.append(d)
        if op["typ"] == "t1" and not op["f"] and not op.get("keep") and k % 2 == 0:
            # the same abstract action through generate_displacements
            quiet(self.ph.generate_displacements, distance=0.01 + 0.001 * k)
            ev["stored"] = self.ph._dataset is not None and "first_atoms" in self.ph._dataset
            return
        if op["typ"] == "t2" and not op["f"] and not op.get("keep") and k % 2 == 0:
            quiet(self.ph.generate_displacements, number_of_snapshots=3, random_seed=k, distance=0.01)
            ev["stored"] = self.ph._dataset is not None and "displacements" in self.ph._dataset \
                and "forces" not in self.ph._dataset
            return
        self.ph.dataset = d
        ev["stored"] = ds_disp_content(self.ph._dataset) == wd and ds_forces_content(self.ph._dataset) == wf
        if op.get("keep") and self.room():
            self.add_handle("dataset_setter", d)

    def do_SetDisplacements(self, op, ev):
        self.fresh_k()
        ds = self.ph._dataset
        n = len(ds["displacements"]) if (ds is not None and "displacements" in ds) else 3
        disp = self.rng.normal(size=(n, self.w.nsuper, 3)) * 0.01
        want = h(disp)
        self.ph.displacements = disp
        ev["stored"] = h(self.ph._dataset["displacements"]) == want

    def do_SetForces(self, op, ev):
        k = self.fresh_k()
        ds = self.ph._dataset
        if ds is None:
            self.ph.forces = np.zeros((1, self.w.nsuper, 3))
            return
        if "first_atoms" in ds:
            f = self.w.t1_forces(ds, k, self.rng)
            fobj = np.array(f)
        else:
            fobj = np.array(self.w.forces_for(np.asarray(ds["displacements"]), k, self.rng), order="C")
        want = h(fobj)
        self.keepalive.append(fobj)
        self.ph.forces = fobj
        ev["stored"] = ds_forces_content(self.ph._dataset) == want
        if op.get("keep") and self.room():
            self.add_handle("forces_setter", fobj)

    def do_ProduceFC(self, op, ev):
        kw = {}
        if not op.get("refused") and self.fresh_k() % 3 == 0:  # the same forces again, through the argument
            kw["forces"] = [np.array(fa["forces"]) for fa in self.ph._dataset["first_atoms"]]
        before = h(self.ph._force_constants) if self.ph._force_constants is not None else None
        quiet(self.ph.produce_force_constants, calculate_full_force_constants=(op["lay"] == "full"), **kw)
        ev["chg"] = before != h(self.ph._force_constants)
        fc = self.ph._force_constants
        lay = "full" if fc.shape[0] == fc.shape[1] else "compact"
        ev["stored"] = lay == op["lay"] and bool(np.isfinite(fc).all())

    def do_GetSCD(self, op, ev):
        cells = self.ph.supercells_with_displacements
        ev["stored"] = cells is not None and self.scd_matches(cells, self.ph._dataset)

    def do_Copy(self, op, ev):
        ph = self.ph
        if op.get("via", "copy") == "ph2ph":
            self.cp = quiet(ph.ph2ph, self.w.S)
            fr = self.fresh_object()
            ref = quiet(fr.ph2ph, self.w.S)
            same = np.abs(self.cp._force_constants - ref._force_constants).max() <= 1e-10 * max(1.0, self.w.scale)
        else:
            self.cp = ph.copy()
            same = self.cp._force_constants is None and self.cp._nac_params is None
        self.keepalive.append(self.cp)
        self.cp_belief = h(ph._primitive._masses)  # what a copy has to contain
        ev["stored"] = bool(same
                            and np.array_equal(self.cp._supercell_matrix, ph._supercell_matrix)
                            and np.abs(self.cp._unitcell.cell - ph._unitcell.cell).max() == 0
                            and np.abs(self.cp._unitcell.scaled_positions - ph._unitcell.scaled_positions).max() == 0)

    def do_ClearDataset(self, op, ev):
        self.ph.dataset = None
        ev["stored"] = self.ph._dataset is None

    def do_InitRD(self, op, ev):
        quiet(self.ph.init_random_displacements)
        g = self.ph._random_displacements
        self.book.rd[id(g)] = self.book.epoch(self.ph, ("fc", "mass"))
        self.book.keep.append(g)

    def do_SetGV(self, op, ev):
        quiet(self.ph.set_group_velocity, q_length=0.03 * (1 + self.fresh_k() % 3))  # coarse: differs visibly from the analytic derivative

    def do_Get(self, op, ev):
        c = op["cls"]
        ph = self.ph
        obj = {"fc_getter": lambda: ph.force_constants, "nac_getter": lambda: ph.nac_params,
               "dataset_getter": lambda: ph.dataset, "masses_getter": lambda: ph.masses,
               "displacements_getter": lambda: ph.displacements, "forces_getter": lambda: ph.forces,
               "primitive_getter": lambda: ph.primitive, "supercell_getter": lambda: ph.supercell,
               "unitcell_getter": lambda: ph.unitcell}[c]()
        if obj is None:
            raise RuntimeError("getter %s returned None" % c)
        self.add_handle(c, obj)
        hd = self.held[-1]
        # the getter returns the current content
        slot = self.slot_of(c)
        if slot == "fc":
            ev["stored"] = h(obj) == h(ph._force_constants)
        elif slot == "nac":
            ev["stored"] = nac_content(obj) == nac_content(ph._nac_params)
        elif c == "dataset_getter":
            ev["stored"] = ds_disp_content(obj) == ds_disp_content(ph._dataset) and \
                ds_forces_content(obj) == ds_forces_content(ph._dataset)
        elif c == "displacements_getter":
            ev["stored"] = h(obj) == h(ph._dataset["displacements"])
        elif c == "forces_getter":
            ev["stored"] = h(np.array(obj)) == ds_forces_content(ph._dataset)
        elif c == "masses_getter":
            ev["stored"] = h(obj) == h(ph._primitive._masses)
        else:
            ev["stored"] = hd.belief == h(self.internal(slot)._masses)

    # queries -----------------------------------------------------------------
    def run_query(self, ph, kind):
        out = {}
        qs = QPOINTS
        if kind in ("qp", "qpgv"):
            quiet(ph.run_qpoints, qs, with_eigenvectors=True, with_dynamical_matrices=True,
                  with_group_velocities=(kind == "qpgv"))
            d = ph.get_qpoints_dict()
            out["frequencies"] = np.array(d["frequencies"])
            out["dynamical_matrices"] = np.array(d["dynamical_matrices"])
            if kind == "qpgv":
                out["group_velocities"] = np.array(d["group_velocities"])
        elif kind == "dmq":
            out["dynamical_matrices"] = np.array([np.array(quiet(ph.get_dynamical_matrix_at_q, q)) for q in qs])
            out["frequencies"] = np.array([quiet(ph.get_frequencies, q) for q in qs])
        elif kind == "gvq":
            out["group_velocities"] = np.array([np.array(quiet(ph.get_group_velocity_at_q, q)) for q in qs])
        elif kind in MESH_KINDS:
            self.setup_mesh(ph, kind)
            if kind in ("mesh", "meshgv", "meshfull"):
                d = ph.get_mesh_dict()
                out["frequencies"] = np.array(d["frequencies"])
                out["weights"] = np.array(d["weights"], dtype=float)
                if kind == "meshgv":
                    out["group_velocities"] = np.array(d["group_velocities"])
        elif kind == "tp":
            quiet(ph.run_thermal_properties, t_min=0, t_max=300, t_step=100)
            d = ph.get_thermal_properties_dict()
            for key in ("free_energy", "entropy", "heat_capacity"):
                out[key] = np.nan_to_num(np.array(d[key], dtype=float))
        elif kind == "tdos":
            quiet(ph.run_total_dos)
            d = ph.get_total_dos_dict()
            out["frequency_points"] = np.array(d["frequency_points"])
            out["total_dos"] = np.array(d["total_dos"])
        elif kind == "moment":
            quiet(ph.run_moment, order=1)
            out["moment"] = np.array([ph.get_moment()])
        elif kind == "meshdict":
            d = ph.get_mesh_dict()
            out["frequencies"] = np.array(d["frequencies"])
            out["weights"] = np.array(d["weights"], dtype=float)
        elif kind == "pdos":
            quiet(ph.run_projected_dos)
            d = ph.get_projected_dos_dict()
            out["frequency_points"] = np.array(d["frequency_points"])
            out["projected_dos"] = np.array(d["projected_dos"])
        elif kind == "td":
            quiet(ph.run_thermal_displacements, t_min=0, t_max=300, t_step=100, freq_min=0.5)
            out["thermal_displacements"] = np.nan_to_num(np.array(ph.get_thermal_displacements_dict()["thermal_displacements"]))
        elif kind == "tdm":
            quiet(ph.run_thermal_displacement_matrices, t_min=0, t_max=300, t_step=100, freq_min=0.5)
            out["thermal_displacement_matrices"] = np.nan_to_num(
                np.array(ph.get_thermal_displacement_matrices_dict()["thermal_displacement_matrices"]))
        elif kind == "rdq":
            out["random_displacements"] = np.nan_to_num(np.array(
                quiet(ph.get_random_displacements_at_temperature, 300, 2, random_seed=7)))
        elif kind in ("band", "bandgv"):
            paths = [np.array([[0.0, 0.0, 0.0], [0.25, 0.1, 0.0], [0.5, 0.2, 0.1]]),
                     np.array([[0.5, 0.5, 0.5], [0.3, 0.3, 0.3], [0.0, 0.0, 0.0]])]
            quiet(ph.run_band_structure, paths, with_group_velocities=(kind == "bandgv"))
            d = ph.get_band_structure_dict()
            out["frequencies"] = np.array(d["frequencies"])
            if kind == "bandgv":
                out["group_velocities"] = np.array(d["group_velocities"])
        return out

    @staticmethod
    def setup_mesh(ph, kind):
        if kind in ("mesh", "meshgv"):
            quiet(ph.run_mesh, [3, 3, 2], with_eigenvectors=False, with_group_velocities=(kind == "meshgv"),
                  is_gamma_center=True)
        elif kind == "meshfull":
            quiet(ph.run_mesh, [3, 3, 2], with_eigenvectors=True, is_mesh_symmetry=False, is_gamma_center=True)
        elif kind == "meshlazy":
            quiet(ph.init_mesh, [3, 3, 2], is_gamma_center=True)
        elif kind == "meshiter":
            quiet(ph.init_mesh, [2, 2, 2], with_eigenvectors=True, is_mesh_symmetry=False, is_gamma_center=True,
                  use_iter_mesh=True)

    def fresh_object(self):
        """A freshly constructed object given the current structure, force
        constants, NAC parameters and masses (copies: nothing is shared)."""
        ph, w = self.ph, self.w
        pm = np.array(ph.masses)
        uc = w.unitcell
        cell = PhonopyAtoms(symbols=list(uc.symbols), cell=np.array(uc.cell), scaled_positions=np.array(uc.scaled_positions),
                            masses=pm[w.u2pp])
        fr = quiet(Phonopy, cell, supercell_matrix=w.S, primitive_matrix=w.P, log_level=0,
                   group_velocity_delta_q=ph._gv_delta_q)
        if ph.nac_params is not None:
            fr.nac_params = copy.deepcopy(ph.nac_params)
        fr.force_constants = np.array(ph.force_constants, dtype="double", order="C")
        return fr

    TOL = {"frequencies": 1e-8, "dynamical_matrices": 1e-9, "group_velocities": 1e-6, "weights": 1e-12}
    TOL_DEFAULT = 1e-8  # thermal quantities, DOS, displacements (observed: bitwise equal)
    # A query agrees with the fresh object if the error is below BOUND x tolerance.  (On the unchanged tree
    # every error observed is exactly 0; the factor 1e-3 keeps the decision far from the tolerance itself -
    # an error between 1e-3 and 1 of it is a disagreement, decided as such, not a machinery self-check.)
    BOUND = 1e-3

    def do_Query(self, op, ev):
        kind = op["k"]
        ph = self.ph
        fp = self.book.epoch(ph)
        mesh_fp = self.book.mesh.get(id(ph._mesh)) if ph._mesh is not None else None
        got = self.run_query(ph, kind)
        # bookkeeping of the holders this query wrote (provenance = the contents current now)
        if kind in ("qp", "qpgv"):
            self.book.qp = fp
            ev["rewritten"] = ("qpoints",)
        elif kind in ("band", "bandgv"):
            self.book.qp = fp
            ev["rewritten"] = ("band",)
        elif kind in MESH_KINDS:
            self.book.mesh[id(ph._mesh)] = fp
            self.book.keep.append(ph._mesh)
            self.mesh_kind = kind
            ev["rewritten"] = ("mesh",)
        elif kind in CONSUMERS:
            if kind != "meshdict":
                self.book.tp = mesh_fp
            ev["rewritten"] = ("mesh", "tp", "tdos", "pdos", "td")  # (a lazy mesh computes now)
        if op.get("refused"):
            return
        # the same query on a freshly constructed object given the current contents
        fr = self.fresh_object()
        if kind in CONSUMERS:
            self.setup_mesh(fr, self.mesh_kind)
        elif kind == "rdq":
            quiet(fr.init_random_displacements)
        want = self.run_query(fr, kind)
        ok = True
        worst = 0.0
        for key, a in got.items():
            b = want[key]
            tol = self.TOL.get(key, self.TOL_DEFAULT)
            if a.shape != b.shape or not np.isfinite(a).all():
                ok = False
                worst = float("inf")
                continue
            d = float(np.abs(a - b).max()) if a.size else 0.0
            worst = max(worst, d / tol)
            if d > self.BOUND * tol:
                ok = False
        stale = (kind in CONSUMERS and mesh_fp != fp) or \
            (kind == "rdq" and self.book.rd.get(id(getattr(ph, "_random_displacements", None))) != self.book.epoch(ph, ("fc", "mass")))
        if not stale:  # (an answer from a superseded holder is judged by TLC, not by the tolerance self-check)
            self.margins.append(worst)
        ev["qok"] = ok
        ev["qmargin"] = worst

    # environment ---------------------------------------------------------------
    def do_MutateHandle(self, op, ev):
        hd = self.held[op["i"] - 1]
        o, c = hd.obj, hd.cls
        eps = float(self.rng.uniform(0.5, 1.5))
        if c in ("fc_setter", "fc_getter"):
            if isinstance(o, list):
                o[0][0][0][0] += 0.013 * self.w.scale * eps
            else:
                o[0, 0] += 0.013 * self.w.scale * eps
                o[-1, -1, 0, 1] -= 0.007 * self.w.scale * eps
        elif c in ("masses_setter", "masses_getter"):
            o[0] += 0.37 * eps
        elif c in ("forces_setter", "forces_getter"):
            if isinstance(o, np.ndarray):
                o[0, 0, 0] += 0.01 * eps
            else:
                o[0][0][0] += 0.01 * eps
        elif c == "displacements_getter":
            if isinstance(o, np.ndarray):
                o[0, 0, 0] += 0.001 * eps
            else:
                o[0][1] += 0.001 * eps
        elif c in ("nac_setter", "nac_getter"):
            o["born"] *= (1.0 + 0.2 * eps)  # in place, keeps the symmetry of the tensors
            o["dielectric"] = np.array(o["dielectric"]) * (1.0 + 0.1 * eps)
            if id(o) in self.witness:
                self.witness[id(o)]["refresh"] = True
        elif c in ("dataset_setter", "dataset_getter"):
            if "first_atoms" in o:
                fa = o["first_atoms"][0]
                fa["displacement"] = np.array(fa["displacement"], dtype="double") * (1.0 + 0.1 * eps)
                if len(o["first_atoms"]) > 1:
                    x = o["first_atoms"][-1]["displacement"]
                    x[0] = x[0] + 0.002 * eps  # in place
            else:
                o["displacements"][0, 0, 0] += 0.002 * eps
        else:  # a cell object handed out by a getter
            o.masses = np.array(o._masses) * (1.0 + 0.05 * eps)
        for x in self.held:  # the caller knows which of its references are (parts of) one object
            if x.grp == hd.grp:
                x.belief = self.handle_content(x)

    def do_Drop(self, op, ev):
        del self.held[op["i"] - 1]

    def do_MutateCopy(self, op, ev):
        m = np.array(self.w.masses(self.fresh_k(), self.rng))
        self.cp.masses = m
        self.cp_belief = h(m)
        # act on the copy further: it must be usable independently
        self.cp.force_constants = self.w.fc(self.fresh_k(), self.rng, "full")


# ----------------------------------------------------------------------------
# abstract bookkeeping mirror used by the random generator to issue only
# enabled operations (the specification, via TLC, is the judge - this mirror is
# just the harness's way of choosing; a wrong mirror shows up as ConformsEnabled)
def consumer_enabled(k, mesh):
    if mesh["st"] == "none":
        return False
    if k in ("pdos", "td") and not mesh["full"]:
        return False
    if mesh["kind"] == "iter" and k != "td":
        return False
    return True


def enabled_ops(obs, max_held):
    held = obs["held"]
    room = len(held) < max_held
    rs = obs["rs"]
    ops = []
    for lay in ("full", "compact"):
        ops.append(dict(op="SetFC", lay=lay, keep=False, own=True))
        for own in (True, False):
            ops.append(dict(op="SetFC", lay=lay, keep=room, own=own or not room))
    for m in ("wang", "gonze"):
        for keep in (False, True):
            ops.append(dict(op="SetNAC", m=m, keep=keep and room))
    if obs["nacm"] != "none":
        ops.append(dict(op="ClearNAC"))
    for keep in (False, True):
        ops.append(dict(op="SetMasses", keep=keep and room))
    if obs["layout"] != "none":
        ops += [dict(op="Symmetrize"), dict(op="Cutoff"), dict(op="InitRD"), dict(op="Copy", via="ph2ph")]
    if obs["layout"] == "full":
        ops.append(dict(op="SymmetrizeSG"))
    for f in (False, True):
        for typ in ("t1", "t2"):
            for keep in (False, True):
                ops.append(dict(op="SetDataset", f=f, typ=typ, keep=keep and room))
    if obs["dsT"] != "t1":
        ops.append(dict(op="SetDisplacements"))
    if obs["dsT"] != "none":
        ops += [dict(op="SetForces", keep=False), dict(op="SetForces", keep=room), dict(op="GetSCD"),
                dict(op="ClearDataset")]
    if obs["dsT"] == "t1" and obs["dsF"]:
        ops += [dict(op="ProduceFC", lay="full"), dict(op="ProduceFC", lay="compact")]
    ops.append(dict(op="Copy", via="copy"))
    if room:
        for c in GETTERS:
            sl = Driver.slot_of(c)
            ok = {"fc": obs["layout"] != "none", "nac": obs["nacm"] != "none", "ds": obs["dsT"] != "none",
                  "dsF": obs["dsF"]}.get(sl, True)
            if c in ("displacements_getter", "forces_getter") and obs["dsT"] != "t2":
                ok = False
            if ok:
                ops.append(dict(op="Get", cls=c))
    for k in DM_KINDS:
        if (k == "dmq" and obs["layout"] != "none") or (k != "dmq" and obs["dm"]["on"]):
            ops.append(dict(op="Query", k=k))
    for k in CONSUMERS:
        if consumer_enabled(k, rs["mesh"]):
            ops.append(dict(op="Query", k=k))
    if rs["rd"] != "none":
        ops.append(dict(op="Query", k="rdq"))
    if obs["dm"]["on"]:
        ops.append(dict(op="SetGV"))
    for i in range(1, len(held) + 1):
        ops.append(dict(op="MutateHandle", i=i))
        ops.append(dict(op="Drop", i=i))
    if obs["cp"]["on"]:
        ops.append(dict(op="MutateCopy"))
    return ops


def refused_ops(obs):
    """operations outside their guard: the code must refuse and change nothing"""
    ops = []
    if not obs["dm"]["on"]:
        ops += [dict(op="Query", k=k, refused=True) for k in ("qp", "qpgv", "gvq", "mesh", "band")]
    if obs["layout"] == "none":
        ops += [dict(op="Query", k="dmq", refused=True), dict(op="Symmetrize", refused=True)]
    if not (obs["dsT"] == "t1" and obs["dsF"]):
        ops.append(dict(op="ProduceFC", lay="full", refused=True))
    if obs["dsT"] == "t1":
        ops.append(dict(op="SetDisplacements", refused=True))
    if obs["dsT"] == "none":
        ops.append(dict(op="SetForces", refused=True))
    if obs["rs"]["mesh"]["st"] == "none":
        ops += [dict(op="Query", k=k, refused=True) for k in ("tp", "tdos", "meshdict", "td")]
    return ops


WEIGHT = {"SetFC": 3, "SetNAC": 3, "ClearNAC": 2, "SetMasses": 3, "Symmetrize": 3, "SymmetrizeSG": 2, "Cutoff": 3,
          "SetDataset": 1.2, "SetDisplacements": 1, "SetForces": 2, "ProduceFC": 4, "GetSCD": 2, "Copy": 2,
          "Get": 1.2, "Query": 1.1, "MutateHandle": 2, "Drop": 2.5, "MutateCopy": 2, "ClearDataset": 0.7,
          "InitRD": 1.2, "SetGV": 0.8}


def random_history(world, rng, length, max_held=2, allow_aliased_env=False, perturb_nac=False, p_refuse=0.04):
    """One random history on the real code (code -> spec direction)."""
    drv = Driver(world, rng, max_held=max_held, perturb_nac=perturb_nac)
    obs = drv.abs_state()
    events = []
    # biased openings: NAC before FC, masses in between, dataset first, ...
    opening = [[], [dict(op="SetNAC", m="gonze", keep=False)], [dict(op="SetNAC", m="wang", keep=True)],
               [dict(op="SetMasses", keep=False), dict(op="SetNAC", m="gonze", keep=False)],
               [dict(op="SetDataset", f=True, typ="t1", keep=False)],
               [dict(op="SetFC", lay="compact", keep=True)], [dict(op="SetFC", lay="full", keep=True)]]
    script = list(opening[int(rng.integers(len(opening)))])
    while len(events) < length:
        if script:
            op = script.pop(0)
            if op.get("keep") and len(obs["held"]) >= max_held:
                op = dict(op, keep=False)
        else:
            ref = refused_ops(obs)
            if ref and rng.random() < p_refuse:
                op = ref[int(rng.integers(len(ref)))]
            else:
                ops = enabled_ops(obs, max_held)
                if not allow_aliased_env:
                    ops = [o for o in ops if not (o["op"] == "MutateHandle" and obs["held"][o["i"] - 1]["alias"])
                           and not (o["op"] == "MutateCopy" and obs["cp"]["shared"])]
                wts = np.array([WEIGHT[o["op"]] * (0.35 if o.get("keep") else 1.0) for o in ops], dtype=float)
                # a query soon after every state change
                if events and events[-1]["op"] not in ("Query", "Get", "Drop", "GetSCD") and obs["dm"]["on"]:
                    wts = np.array([w * (2.0 if o["op"] == "Query" else 1.0) for w, o in zip(wts, ops)])
                op = ops[int(rng.choice(len(ops), p=wts / wts.sum()))]
        ev = drv.step(op)
        events.append(ev)
        obs = ev["obs"]
    return events, drv


def replay_history(world, rng, ops, max_held=2, perturb_nac=False):
    """Drive the real code along a behaviour generated by TLC (spec -> code)."""
    drv = Driver(world, rng, max_held=max_held, perturb_nac=perturb_nac)
    events = []
    for op in ops:
        events.append(drv.step(op))
    return events, drv
