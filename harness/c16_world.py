"""C16 - realisation of SaveLoad.tla configurations on the real code.

A configuration (record of SaveLoad.tla: obj, st, comp, args, env) is turned
into a real Phonopy object, a populated working directory and the arguments of
Phonopy.save / phonopy.load; the outcome is projected back to the abstract
`loaded` record (which source each field came from, layout, dataset type, an
integer error class per field).  Every candidate source carries different
numbers, so the source of a loaded field is identified by its content.

All numbers written here are short decimals / dyadic fractions, so that the
same runs also feed the text-level specification (TextCodec.tla).
"""
from __future__ import annotations

import contextlib
import io
import os
import shutil
import tempfile

import numpy as np

from harness import bootstrap  # noqa: F401

import phonopy
from phonopy import Phonopy
from phonopy.structure.atoms import PhonopyAtoms

VERIF = os.path.dirname(os.path.dirname(os.path.abspath(__file__)))

# default unit factors (THz) of the two calculators used; written out, not taken from phonopy
DEFAULT_FACTOR = {"none": 15.633302300230191, "vasp": 15.633302300230191, "qe": 108.97077184367376}
DEFAULT_NAC_FACTOR = {"none": 14.39965172592227, "vasp": 14.39965172592227, "qe": 2.0}

CRYSTALS = {
    # rock salt conventional cell, species interleaved; primitive 'F'
    "nacl": dict(lattice=[[5.5, 0, 0], [0, 5.5, 0], [0, 0, 5.5]],
                 symbols=["Na", "Cl", "Na", "Cl", "Na", "Cl", "Na", "Cl"],
                 pos=[[0, 0, 0], [.5, 0, 0], [0, .5, .5], [.5, .5, .5], [.5, 0, .5], [0, 0, .5], [.5, .5, 0], [0, .5, 0]],
                 smat=[[1, 0, 0], [0, 1, 0], [0, 0, 1]], pmat="F"),
    # polar tetragonal AB, non-diagonal supercell
    "tetab": dict(lattice=[[3.0, 0, 0], [0, 3.0, 0], [0, 0, 3.75]], symbols=["Ti", "O"],
                  pos=[[0, 0, 0], [.5, .5, .25]], smat=[[1, 1, 0], [-1, 1, 0], [0, 0, 1]], pmat="auto"),
    # triclinic P1, interleaved species
    "tric": dict(lattice=[[4.0, 0.25, 0.5], [0.125, 4.5, 0.375], [0.25, -0.5, 5.0]], symbols=["Si", "O", "Si"],
                 pos=[[0, 0, 0], [.25, .5, .25], [.5, .25, .75]], smat=[[2, 0, 0], [0, 1, 0], [0, 0, 1]], pmat=None),
    # the same with a supercell matrix for which the classic and the SNF construction order the atoms differently
    "tetsnf": dict(lattice=[[3.0, 0, 0], [0, 3.0, 0], [0, 0, 3.75]], symbols=["Ti", "O"],
                   pos=[[0, 0, 0], [.5, .5, .25]], smat=[[1, 0, 1], [0, 2, 0], [-1, 0, 1]], pmat=None, snfS=True),
    # a cell whose c/2 translation holds only at a loose tolerance (primitive matrix 'auto' found with symprec=1e-2)
    "tetloose": dict(lattice=[[3.0, 0, 0], [0, 3.0, 0], [0, 0, 7.5]], symbols=["Ti", "O", "Ti", "O"],
                     pos=[[0, 0, 0], [.5, .5, .125], [0, 0, .5002], [.5, .5, .625]], smat=[[1, 0, 0], [0, 1, 0], [0, 0, 1]],
                     pmat="auto", fragile=True),
    # space group P4, general positions: anisotropic, pairwise different Born tensors on one orbit (BornCodec.tla)
    "p4": dict(lattice=[[4.0, 0, 0], [0, 4.0, 0], [0, 0, 5.0]],
               symbols=["Ti", "Ti", "Ti", "Ti", "O", "O", "O", "O"],
               pos=[[.125, .25, .125], [.75, .125, .125], [.875, .75, .125], [.25, .875, .125],
                    [.375, .125, .5625], [.875, .375, .5625], [.625, .875, .5625], [.125, .625, .5625]],
               smat=[[1, 0, 0], [0, 1, 0], [0, 0, 1]], pmat=None),
    # two-atom tetragonal magnet
    "fe2": dict(lattice=[[2.875, 0, 0], [0, 2.875, 0], [0, 0, 3.0]], symbols=["Fe", "Fe"],
                pos=[[0, 0, 0], [.5, .5, .5]], smat=[[1, 0, 0], [0, 1, 0], [0, 0, 2]], pmat=None),
}


def dyadic(rng, shape, scale=1.0, bits=8):
    """random numbers that are multiples of 2^-bits (exact short decimals)."""
    q = 2 ** bits
    return np.rint(rng.normal(size=shape) * scale * q) / q


def make_unitcell(cell):
    cr = CRYSTALS[cell["name"]]
    symbols = list(cr["symbols"])
    if cell["ext"]:
        last = symbols[-1]
        symbols = [s + "1" if s == last else s for s in symbols]
        if cell["name"] == "fe2":
            symbols = ["Fe", "Fe1"]
    masses = None
    if cell["masses"] not in ("std", "set") or cell["ext"]:  # extended symbols need explicit masses
        base = {"Na": 22.5, "Cl": 35.125, "Ti": 47.75, "O": 16.25, "Si": 28.0625, "Fe": 55.875}
        masses = []
        for s in symbols:
            m = base[s.rstrip("0123456789")]
            if s[-1].isdigit():
                m += 1.0
            if cell["masses"] == "c9":
                m = round(m + 0.0001234, 7)  # seven decimals: rounded by the '%f' of the writer
            masses.append(m)
    mag = None
    n = len(symbols)
    if cell["mag"] == "col":
        mag = [1.5 if i % 2 == 0 else -1.5 for i in range(n)]
    elif cell["mag"] == "noncol":
        mag = [[0.5, 0.0, 1.25] if i % 2 == 0 else [0.0, 0.25, -1.25] for i in range(n)]
    lat = np.array(cr["lattice"], dtype=float)
    if cell.get("generic"):
        # a rigid rotation and an irrational scale: every lattice entry has a full mantissa, so the
        # rounding of the 15-decimal text is really exercised (error classes of SaveLoadTrace)
        from harness import xtal
        lat = (lat @ xtal.random_rotation(np.random.default_rng(12345))) * (1.0 + np.sqrt(2.0) / 40.0)
        if mag is not None and np.ndim(mag) == 2:
            pass  # moments are kept as given: the magnetic space group may be lower, which is fine here
    return PhonopyAtoms(symbols=symbols, cell=lat,
                        scaled_positions=np.array(cr["pos"], dtype=float), masses=masses, magnetic_moments=mag)


SET_MASS = {"Na": 21.25, "Cl": 36.5, "Ti": 45.125, "O": 17.75, "Si": 29.375, "Fe": 57.5}
OWN_FACTOR = 20.0
SYMPREC = {"default": 1e-5, "loose": 1e-2, "unset": 1e-5}
NP_OBJ0 = dict(snf=False, tol="default", issym=True, dense=True, factor="default")


def cell_attrs(name):
    """abstract attributes of a crystal of the table (fields of obj.cell in SaveLoad.tla)"""
    cr = CRYSTALS[name]
    return dict(snfS=bool(cr.get("snfS")), fragile=bool(cr.get("fragile")),
                sid=bool(np.array_equal(np.array(cr["smat"]), np.eye(3, dtype=int))), allIndep=(name not in ("p4", "fe2")))  # no primitive atom is the image of another under the space group


def new_phonopy(cfgobj, quiet=True, **override):
    """Phonopy object of the abstract object: constructor options from obj.np (override: the options load() is given)."""
    cr = CRYSTALS[cfgobj["cell"]["name"]]
    calc = None if cfgobj["calc"] == "none" else cfgobj["calc"]
    lattice = override.pop("lattice", None)
    pmat = override.pop("pmat", "table")
    opt = dict(NP_OBJ0)
    opt.update(cfgobj.get("np") or {})
    opt.update(override)
    factor = OWN_FACTOR if opt["factor"] == "own" else DEFAULT_FACTOR[cfgobj["calc"]]
    ucell = make_unitcell(cfgobj["cell"])
    if lattice is not None:
        ucell.cell = lattice
    with contextlib.redirect_stdout(io.StringIO()):
        ph = Phonopy(ucell, supercell_matrix=cr["smat"], primitive_matrix=(cr["pmat"] if isinstance(pmat, str) and pmat == "table" else pmat),
                     factor=factor, calculator=calc, use_SNF_supercell=bool(opt["snf"]), symprec=SYMPREC[opt["tol"]],
                     is_symmetry=bool(opt["issym"]), store_dense_svecs=bool(opt["dense"]))
    if cfgobj["cell"]["masses"] == "set":
        # custom masses assigned after construction, through the Phonopy.masses setter (primitive-cell masses; the
        # setter carries them to the supercell and the unit cell, from where save() writes them)
        ph.masses = [SET_MASS[x.rstrip("0123456789")] + (1.0 if x[-1].isdigit() else 0.0) for x in ph.primitive.symbols]
    return ph


def iso_nac(ph, z, eps, rng=None):
    """NAC parameters that every site symmetry allows: isotropic, neutral."""
    n = len(ph.primitive)
    syms = [s.rstrip("0123456789") for s in ph.primitive.symbols]
    first = syms[0]
    npos = sum(1 for s in syms if s == first)
    nneg = n - npos
    born = np.zeros((n, 3, 3))
    for i, s in enumerate(syms):
        if nneg == 0:
            born[i] = 0.0
        else:
            born[i] = np.eye(3) * (z if s == first else -z * npos / nneg)
    return dict(born=born, dielectric=np.eye(3) * eps)


RZ = np.array([[0, -1, 0], [1, 0, 0], [0, 0, 1]], dtype=float)


def make_nac(ph, name, k, generic=False):
    """NAC parameters allowed by the space group of the crystal, anisotropic wherever the sites allow it,
    neutral; k = 1, 2, ... gives different numbers for the different sources.  All entries are multiples of 1/64
    (in the frame of the tabulated lattice; rotated with it for the 'generic' cells)."""
    nac = _make_nac(ph, name, k)
    if generic:
        from harness import xtal
        Q = xtal.random_rotation(np.random.default_rng(12345))  # the rotation of make_unitcell: v' = v Q
        nac["born"] = np.array([Q.T @ b @ Q for b in nac["born"]])
        nac["dielectric"] = Q.T @ nac["dielectric"] @ Q
    return nac


def _make_nac(ph, name, k):
    syms = [s.rstrip("0123456789") for s in ph.primitive.symbols]
    n = len(syms)
    u = 1.0 / 64
    if name in ("tetab", "tetsnf", "tetloose") and n == 2:
        b = np.diag([70 + 8 * k, 70 + 8 * k, 131 + 4 * k]) * u
        return dict(born=np.array([b, -b]), dielectric=np.diag([150 + 16 * k, 150 + 16 * k, 233 + 8 * k]) * u)
    if name == "tric" and n == 3:
        t1 = np.array([[90, 35, 3], [-59, 49, -118], [-9, 24, 83]]) * u * (1 + k / 8)
        t3 = np.array([[-17, 5, 66], [12, 77, -8], [41, -30, 20]]) * u * (1 + k / 8)
        return dict(born=np.array([t1, -(t1 + t3), t3]),
                    # (not symmetric on purpose: nothing in P1 symmetrises it, and a transposed tensor must show)
                    dielectric=np.array([[200, 12, -7], [16, 260, 20], [-3, 28, 300]]) * u * (1 + k / 8))
    if name == "p4" and n == 8:
        T = np.array([[90, 35, 3], [-59, -49, -118], [-109, -124, -83]]) * u + np.eye(3) * k / 8
        born = []
        for i, s in enumerate(syms):
            R = np.linalg.matrix_power(RZ, i % 4)
            born.append((1 if s == "Ti" else -1) * (R @ T @ R.T))
        return dict(born=np.array(born), dielectric=np.diag([150 + 16 * k, 150 + 16 * k, 233 + 8 * k]) * u)
    return iso_nac(ph, 1.0 + k / 8, 2.0 + k / 2)


def make_dataset(ph, ds, rng, fscale=0.125):
    """dataset of the requested abstract kind with dyadic numbers."""
    n = len(ph.supercell)
    if ds["type"] == 0:
        return None
    if ds["type"] == 1:
        ph.generate_displacements(distance=0.03125)
        dset = ph.dataset
        for d in dset["first_atoms"]:
            d["displacement"] = np.array(d["displacement"], dtype=float)
        if ds["forces"]:
            for d in dset["first_atoms"]:
                f = dyadic(rng, (n, 3), fscale)
                d["forces"] = f
        if ds["energies"]:
            for d in dset["first_atoms"]:
                d["supercell_energy"] = float(dyadic(rng, (), 8.0, bits=8))
        return dset
    nd = 3
    dset = {"displacements": dyadic(rng, (nd, n, 3), 0.03, bits=9)}
    if ds["forces"]:
        dset["forces"] = dyadic(rng, (nd, n, 3), fscale)
    if ds["energies"]:
        dset["supercell_energies"] = dyadic(rng, (nd,), 8.0, bits=8)
    return dset


def disp_forces(dset):
    """(displacements (nd,n,3), forces or None, energies or None) of either type; no phonopy code."""
    if dset is None:
        return None, None, None
    if "first_atoms" in dset:
        n = dset["natom"]
        fa = dset["first_atoms"]
        d = np.zeros((len(fa), n, 3))
        for i, x in enumerate(fa):
            d[i, x["number"]] = x["displacement"]
        f = None
        if all("forces" in x for x in fa) and fa:
            f = np.array([x["forces"] for x in fa], dtype=float)
        e = None
        if all("supercell_energy" in x for x in fa) and fa:
            e = np.array([x["supercell_energy"] for x in fa], dtype=float)
        return d, f, e
    d = np.array(dset["displacements"], dtype=float)
    f = np.array(dset["forces"], dtype=float) if "forces" in dset else None
    e = np.array(dset["supercell_energies"], dtype=float) if "supercell_energies" in dset else None
    return d, f, e


def ds_kind(dset):
    if dset is None:
        return dict(type=0, forces=False, energies=False)
    if "first_atoms" in dset:
        fa = dset["first_atoms"]
        return dict(type=1, forces=bool(fa) and all("forces" in x for x in fa),
                    energies=bool(fa) and all("supercell_energy" in x for x in fa))
    return dict(type=2 if "displacements" in dset else 9, forces="forces" in dset,
                energies="supercell_energies" in dset)


def random_fc(ph, rng, layout, scale=2.0, bits=7):
    """A force-constant array with the translational structure of a supercell
    (fc[i,j] depends only on the primitive atom of i and the relative lattice
    vector): generated in compact form and expanded by the lattice translations,
    found here from the positions."""
    n = len(ph.supercell)
    p2s = [int(x) for x in ph.primitive.p2s_map]
    compact = dyadic(rng, (len(p2s), n, 3, 3), scale, bits=bits)
    if layout == "compact":
        return compact
    return expand_compact(ph, compact)


def translation_perms(ph):
    """for every supercell atom i: (p, perm) with p the index (into p2s) of its primitive
    atom and perm the permutation j -> j' of the lattice translation taking i to p2s[p].
    Computed from positions only."""
    sc = ph.supercell
    pos = sc.scaled_positions
    n = len(sc)
    p2s = [int(x) for x in ph.primitive.p2s_map]
    plat = ph.primitive.cell
    slat = sc.cell
    out = []
    tol = max(1e-6, float(ph.symmetry.tolerance) / 2.0)  # (fractional; the object's own tolerance for distorted cells)
    # supercell positions in primitive lattice coordinates
    cart = pos @ slat
    pfrac = cart @ np.linalg.inv(plat)
    for i in range(n):
        found = None
        for pi, s in enumerate(p2s):
            t = pfrac[s] - pfrac[i]
            if np.abs(t - np.rint(t)).max() < tol and sc.symbols[s] == sc.symbols[i]:
                found = (pi, np.rint(t))
                break
        assert found is not None
        pi, t = found
        tc = (t @ plat) @ np.linalg.inv(slat)  # translation in supercell fractional coordinates
        perm = np.zeros(n, dtype=int)
        for j in range(n):
            x = pos[j] + tc
            dd = pos - x
            dd -= np.rint(dd)
            k = np.where(np.abs(dd).max(axis=1) < tol)[0]
            assert len(k) == 1
            perm[j] = k[0]
        out.append((pi, perm))
    return out


def expand_compact(ph, compact):
    n = len(ph.supercell)
    full = np.zeros((n, n, 3, 3))
    for i, (pi, perm) in enumerate(translation_perms(ph)):
        # fc[i, j] = fc[p2s[pi], perm[j]]
        full[i] = compact[pi][perm]
    return full


class World:
    """One configuration realised in a private directory."""

    def __init__(self, cfg, seed):
        self.cfg = cfg
        self.rng = np.random.default_rng(seed)
        self.dir = None
        self.cwd0 = os.getcwd()

    def __enter__(self):
        base = os.path.join(VERIF, ".run")
        os.makedirs(base, exist_ok=True)
        self.dir = tempfile.mkdtemp(prefix="c16w_", dir=base)
        os.chdir(self.dir)
        return self

    def __exit__(self, *a):
        os.chdir(self.cwd0)
        shutil.rmtree(self.dir, ignore_errors=True)

    # ------------------------------------------------------------------
    def build(self):
        cfg, rng = self.cfg, self.rng
        o = cfg["obj"]
        ph = new_phonopy(o)
        self.ph = ph
        self.obj_order = order_of(ph.supercell.scaled_positions, constructions(ph.unitcell, ph.supercell_matrix))
        n = len(ph.supercell)
        self.src_ds = {}
        self.src_fc = {}
        self.src_nac = {}
        dset = make_dataset(ph, o["ds"], rng)
        if dset is not None:
            ph.dataset = dset
            self.src_ds["yaml"] = ph.dataset
        if cfg.get("zero") and dset is not None:
            # the value class {0.0, -0.0, a tiny number that prints as zero}: a written zero is a VALUE, the field is present
            if "first_atoms" in dset:
                fa = dset["first_atoms"]
                for i, x in enumerate(fa):
                    if "supercell_energy" in x:
                        x["supercell_energy"] = [0.0, -0.0, 1e-9, -1e-9][i % 4] if i < 3 else x["supercell_energy"]
                    if "forces" in x and i == 0:
                        x["forces"][0] = [0.0, -0.0, 1e-9]
                        x["forces"][-1] = [0.0, 0.0, 0.0]
            else:
                dset["displacements"][0, 0] = [0.0, 0.0, 0.0]
                dset["displacements"][-1, -1] = [-0.0, 1e-9, 0.0]
                if "forces" in dset:
                    dset["forces"][0, 0] = [0.0, -0.0, 1e-9]
                    dset["forces"][-1, 0] = [0.0, 0.0, 0.0]
                if "supercell_energies" in dset:
                    dset["supercell_energies"][:3] = [0.0, -0.0, 1e-9][:len(dset["supercell_energies"])]
            ph.dataset = dset
            self.src_ds["yaml"] = ph.dataset
        big = bool(cfg.get("big"))
        if big and dset is not None:
            # values towards the ends of the printable range in the saved file
            d, f, e = disp_forces(ph.dataset)
            if f is not None:
                f = f.copy()
                f[0, 0] = [99999.5, -12345.25, 1e-9]
                f[-1, -1] = [-100000.5, 0.123456789, 1234567.75]
                ph.forces = f
                self.src_ds["yaml"] = ph.dataset
        if o["fc"] != "none":
            fc = random_fc(ph, rng, o["fc"])
            if cfg.get("zero"):
                fc[0, -1] = [[0.0, -0.0, 1e-9], [0.0, 0.0, 0.0], [-1e-9, 0.0, -0.0]]
            if big:
                fc[0, 0] = [[1234567.75, -999999.5, 1e-9], [-1e-9, 100000.25, -0.987654321], [0.0, -0.0, 99999.5]]
                fc[-1, -1, 1] = [-100000.5, 10000.125, 0.03125]
            ph.force_constants = fc
            self.src_fc["yaml"] = ph.force_constants.copy()
        if o["nac"]["kind"] != "none":
            nac = make_nac(ph, o["cell"]["name"], 1, o["cell"].get("generic"))
            if o["nac"]["kind"] in ("gonze", "wang"):
                nac["method"] = o["nac"]["kind"]
            if o["nac"]["factor"]:
                nac["factor"] = 7.25 if o["calc"] == "none" else 3.5
                if cfg.get("zero") and o["fc"] == "none" and rng.random() < 0.5:
                    nac["factor"] = 0.0  # (a unit factor of zero switches the correction off; it is still a written value)
            ph.nac_params = nac
            self.src_nac["yaml"] = nac
        return ph

    def populate(self):
        """ambient files of env and the files named by args; returns kwargs of phonopy.load."""
        cfg, rng, ph = self.cfg, self.rng, self.ph
        env, args = cfg["env"], cfg["args"]
        from phonopy.file_IO import (write_FORCE_CONSTANTS, write_FORCE_SETS,
                                     write_force_constants_to_hdf5)
        n = len(ph.supercell)
        p2s = ph.primitive.p2s_map
        kw = {}

        def other_dataset(kind):
            ph2 = new_phonopy(cfg["obj"])
            d = make_dataset(ph2, dict(type=kind, forces=True, energies=False), rng, fscale=0.25)
            ph2.dataset = d
            return ph2.dataset

        if env["FS"] != 0:
            d = other_dataset(env["FS"])
            write_FORCE_SETS(d, filename="FORCE_SETS")
            self.src_ds["FORCE_SETS"] = d
        if args["fsFile"] != 0:
            d = other_dataset(args["fsFile"])
            write_FORCE_SETS(d, filename="my_force_sets")
            self.src_ds["fsfile"] = d
            kw["force_sets_filename"] = "my_force_sets"
        if env["FC"] != "none":
            fc = random_fc(ph, rng, env["FC"], scale=3.0)
            write_FORCE_CONSTANTS(fc, filename="FORCE_CONSTANTS", p2s_map=p2s)
            self.src_fc["FORCE_CONSTANTS"] = fc
        if env["H5"] != "none":
            fc = random_fc(ph, rng, env["H5"], scale=4.0)
            write_force_constants_to_hdf5(fc, filename="force_constants.hdf5", p2s_map=p2s)
            self.src_fc["hdf5"] = fc
        if args["fcFile"] != "none":
            lay = "full" if args["fcFile"].endswith("F") else "compact"
            fc = random_fc(ph, rng, lay, scale=5.0)
            if args["fcFile"].startswith("txt"):
                write_FORCE_CONSTANTS(fc, filename="my_fc", p2s_map=p2s)
                kw["force_constants_filename"] = "my_fc"
            else:
                write_force_constants_to_hdf5(fc, filename="my_fc.hdf5", p2s_map=p2s)
                kw["force_constants_filename"] = "my_fc.hdf5"
            self.src_fc["fcfile"] = fc

        def write_born(name, k):
            nac = make_nac(ph, cfg["obj"]["cell"]["name"], k, cfg["obj"]["cell"].get("generic"))
            # BORN holds the symmetry-independent atoms of the primitive cell (tensors of make_nac are equivariant)
            from phonopy.structure.symmetry import Symmetry
            indep = Symmetry(ph.primitive).get_independent_atoms()
            with open(name, "w") as f:
                f.write("# epsilon and Z* of atoms\n")
                f.write(" ".join("%.8f" % x for x in nac["dielectric"].ravel()) + "\n")
                for i in indep:
                    f.write(" ".join("%.8f" % x for x in nac["born"][i].ravel()) + "\n")
            return nac

        if env["BORN"]:
            self.src_nac["BORN"] = write_born("BORN", 2)
        if args["bornFile"]:
            self.src_nac["bornfile"] = write_born("my_born", 3)
            kw["born_filename"] = "my_born"
        if args["nacArg"]:
            self.src_nac["arg"] = make_nac(ph, cfg["obj"]["cell"]["name"], 4, cfg["obj"]["cell"].get("generic"))
            kw["nac_params"] = {k: np.array(v) for k, v in self.src_nac["arg"].items()}
        if args["calcArg"] != "none":
            kw["calculator"] = args["calcArg"]
        # crystal structure by argument: each source is a differently scaled copy of the object's cell
        cells = args.get("cells") or {}
        self.src_cell = {"yaml": (ph.unitcell.cell.copy(), "unit")}

        def scaled(c, f):
            c2 = c.copy()
            c2.cell = c.cell * f
            return c2

        def write_structure(fname, c, fmt):
            if fmt == "vasp":
                from phonopy.interface.vasp import write_vasp
                write_vasp(fname, c)
            else:  # a complete pw.x input (the writer of phonopy gives only the cards)
                from phonopy.interface.qe import get_pwscf_structure
                species = []
                for x in c.symbols:
                    if x not in species:
                        species.append(x)
                with open(fname, "w") as f:
                    f.write("&system\n    ibrav = 0, nat = %d, ntyp = %d\n/\n" % (len(c), len(species)))
                    f.write(get_pwscf_structure(c, pp_filenames={x: x + ".upf" for x in species}))
        if cells.get("unitcell"):
            c = scaled(ph.unitcell, 1 + 1 / 64)
            kw["unitcell"] = c
            self.src_cell["unitcell"] = (c.cell.copy(), "unit")
        if cells.get("supercell"):
            c = scaled(ph.supercell, 1 + 2 / 64)
            kw["supercell"] = PhonopyAtoms(symbols=c.symbols, cell=c.cell, scaled_positions=c.scaled_positions, masses=c.masses,
                                           magnetic_moments=c.magnetic_moments)
            self.src_cell["supercell"] = (c.cell.copy(), "super")
        if cells.get("ucfile"):
            c = scaled(ph.unitcell, 1 + 3 / 64)
            write_structure("my_unitcell", c, args["fmt"])
            kw["unitcell_filename"] = "my_unitcell"
            self.src_cell["ucfile"] = (c.cell.copy(), "unit")
        if cells.get("scfile"):
            c = scaled(ph.supercell, 1 + 4 / 64)
            write_structure("my_supercell", c, args["fmt"])
            kw["supercell_filename"] = "my_supercell"
            self.src_cell["scfile"] = (c.cell.copy(), "super")
        if args.get("smatArg"):
            kw["supercell_matrix"] = np.array(ph.supercell_matrix)
        if args.get("pmatArg"):
            kw["primitive_matrix"] = np.eye(3) if ph.primitive_matrix is None else np.array(ph.primitive_matrix)
        # the options save() does not record, as arguments of load()
        anp = args.get("np") or {}
        kw["use_SNF_supercell"] = bool(anp.get("snf", False))
        if anp.get("tol", "unset") != "unset":
            kw["symprec"] = SYMPREC[anp["tol"]]
        kw["is_symmetry"] = bool(anp.get("issym", True))
        kw["store_dense_svecs"] = bool(anp.get("dense", True))
        if anp.get("factor", "unset") == "own":
            kw["factor"] = OWN_FACTOR
        kw["is_compact_fc"] = bool(args["isCompact"])
        kw["produce_fc"] = bool(args["produceFc"])
        kw["is_nac"] = bool(args["isNac"])
        return kw

    def settings(self):
        st = self.cfg["st"]
        names = dict(fs="force_sets", disp="displacements", fc="force_constants", born="born_effective_charge",
                     eps="dielectric_constant")
        d = {names[k]: (v == "T") for k, v in st.items() if v != "unset"}
        if not d and self.rng.random() < 0.5:
            return None
        return d

    def save_load(self):
        """-> (ph2 or None, err or None, yaml text, filename)"""
        ph = self.ph
        comp = {"F": False, "T": True, "xz": "xz"}[self.cfg["comp"]]
        kw = self.populate()
        self.load_kw = kw
        try:
            fn = ph.save("c16.yaml", settings=self.settings(), compression=comp)
        except Exception as e:  # save() must not fail on a valid object: reported as a violation by the caller
            self.filename, self.container, self.text = "c16.yaml", "none", ""
            self.save_error = e
            return None, e
        self.save_error = None
        self.filename = fn
        with open(fn, "rb") as f:
            raw = f.read()
        if raw[:6] == b"\xfd7zXZ\x00":
            import lzma
            self.container = "xz"
            self.text = lzma.decompress(raw).decode()
        else:
            self.container = "plain"
            self.text = raw.decode(errors="replace")
        try:
            with contextlib.redirect_stdout(io.StringIO()):
                ph2 = phonopy.load(fn, **kw)
            return ph2, None
        except Exception as e:  # reported through the abstract status
            return None, e


# ----------------------------------------------------------------------------
# projection of the outcome
def ulp(x):
    return float(np.spacing(np.abs(x).max())) if np.size(x) else 0.0


def err_class(a, b, decimals, extra=0.0):
    """integer error class of |a-b| against the half unit of the last written place
    (plus one ulp of the magnitude: text with 15+ decimals holds 16-17 significant digits).
    0 exact, 1 within, 2.. multiples (capped at 9)."""
    a = np.asarray(a, dtype=float)
    b = np.asarray(b, dtype=float)
    if a.shape != b.shape:
        return 9
    if a.size == 0:
        return 0
    d = float(np.abs(a - b).max())
    if d == 0.0:
        return 0
    tol = 0.5 * 10.0 ** (-decimals) + 2 * ulp(a) + extra
    return int(min(9, np.ceil(d / tol)))


def nearest_source(value, cands, close=1e-5):
    """name of the candidate whose array is nearest (and close), else 'unknown'."""
    best, bd = "unknown", None
    for name, arr in cands.items():
        arr = np.asarray(arr, dtype=float)
        if arr.shape != np.shape(value):
            continue
        d = float(np.abs(arr - value).max()) if arr.size else 0.0
        if bd is None or d < bd:
            best, bd = name, d
    scale = max(1.0, float(np.abs(value).max())) if np.size(value) else 1.0
    if bd is None or bd > close * scale:
        return "unknown", None
    return best, bd / scale


# ----------------------------------------------------------------------------
# reference objects (the same public functions applied to the ORIGINAL data: the property is
# relative - load(save(x)) against x)
def produced_fc(cfgobj, dset, compact, symmetrize=True, **override):
    ph = new_phonopy(cfgobj, **override)
    ph.dataset = dset
    with contextlib.redirect_stdout(io.StringIO()):
        ph.produce_force_constants(calculate_full_force_constants=not compact)
        if symmetrize:
            ph.symmetrize_force_constants()
    return ph.force_constants.copy()


def to_layout(ph, fc, layout):
    """layout conversion from the definition: compact = rows of the primitive atoms,
    full = images under the lattice translations."""
    n = len(ph.supercell)
    p2s = [int(x) for x in ph.primitive.p2s_map]
    is_full = fc.shape[0] == fc.shape[1] and fc.shape[0] == n
    if len(p2s) == n:  # primitive = supercell: both layouts coincide
        return fc
    if layout == "compact":
        return fc[p2s] if is_full else fc
    return fc if is_full else expand_compact(ph, fc)


def layout_of(ph, fc):
    n = len(ph.supercell)
    if fc.shape[0] == n and fc.shape[1] == n:
        return "full" if len(ph.primitive) != n else "both"
    return "compact"


QPOINTS = [[0.1, 0.2, 0.3], [0.5, 0.0, 0.0], [0.25, 0.25, 0.5], [0.0, 0.5, 0.5], [0.37, -0.11, 0.2]]


def frequencies(ph):
    with contextlib.redirect_stdout(io.StringIO()):
        ph.run_qpoints(QPOINTS)
    return np.array(ph.qpoints.frequencies)


def cell_err(a, b):
    """error classes of one cell against another: lattice (15 decimals), positions (15), masses (6),
    magnetic moments (8); symbols exact."""
    out = dict(sym=list(a.symbols) == list(b.symbols))
    out["lat"] = err_class(a.cell, b.cell, 15)
    pa, pb = np.array(a.scaled_positions), np.array(b.scaled_positions)
    if pa.shape == pb.shape:
        pb = pb + np.rint(pa - pb)  # positions are defined modulo lattice vectors (0.9999999999999999 = 0)
    out["pos"] = err_class(pa, pb, 15)
    out["mass"] = err_class(a.masses, b.masses, 6)
    ma, mb = a.magnetic_moments, b.magnetic_moments
    if ma is None and mb is None:
        out["mag"] = 0
    elif ma is None or mb is None:
        out["mag"] = 9
    else:
        out["mag"] = err_class(ma, mb, 8)
    return out


def constructions(unitcell, smat):
    """the supercell of the two constructions (classic, SNF), as arrays of scaled positions"""
    from phonopy.structure.cells import get_supercell
    out = {}
    for name, old in (("classic", True), ("snf", False)):
        with contextlib.redirect_stdout(io.StringIO()):
            out[name] = get_supercell(unitcell, smat, is_old_style=old).scaled_positions
    return out


def order_of(supercell_positions, cons):
    same = {k: (v.shape == supercell_positions.shape and np.abs(v - supercell_positions).max() < 1e-8) for k, v in cons.items()}
    if same["classic"] and same["snf"]:
        return "same"
    if same["classic"]:
        return "classic"
    if same["snf"]:
        return "snf"
    return "unknown"


def project_cell_np(world, ph2):
    """which cell was taken (by its lattice), the supercell matrix class, the effective constructor options"""
    ph = world.ph
    src = "unknown"
    lat = ph2.unitcell.cell
    for name, (L, kind) in getattr(world, "src_cell", {"yaml": (ph.unitcell.cell, "unit")}).items():
        if L.shape == lat.shape and np.abs(L - lat).max() < 1e-6:
            src = name
    sm = np.array(ph2.supercell_matrix)
    if np.array_equal(sm, np.eye(3, dtype=int)):
        smat = "identity"
    elif np.array_equal(sm, np.array(ph.supercell_matrix)):
        smat = "obj"
    else:
        smat = "other"
    cons = constructions(ph2.unitcell, ph2.supercell_matrix)
    differs = bool(np.abs(cons["classic"] - cons["snf"]).max() > 1e-8)
    order = order_of(ph2.supercell.scaled_positions, cons)
    tol = ph2.symmetry.tolerance
    tolc = "default" if abs(tol - 1e-5) < 1e-12 else ("loose" if abs(tol - 1e-2) < 1e-12 else "other")
    f = ph2.unit_conversion_factor
    freq = "own" if abs(f - OWN_FACTOR) < 1e-12 else "default"
    issym = bool(getattr(ph2, "_is_symmetry", True))
    return dict(src=src, smat=smat), dict(order=order, tol=tolc, issym=issym, freq=freq), differs


def zeros_class(orig, loaded, decimals):
    """0 if every entry of orig that is zero at the written decimals is present and exactly zero in loaded, else 9"""
    if orig is None:
        return 0
    orig = np.asarray(orig, dtype=float)
    if loaded is None:
        return 9 if orig.size else 0
    loaded = np.asarray(loaded, dtype=float)
    if loaded.shape != orig.shape:
        return 9
    mask = np.abs(orig) < 0.5 * 10.0 ** (-decimals)
    return 0 if not mask.any() or bool((loaded[mask] == 0.0).all()) else 9


def project(world, ph2, err, wr=None):
    """Outcome of save+load -> abstract `loaded` record + quality classes.
    wr: what the saved text contains; the saved file is a candidate source of a field only if it holds it."""
    cfg, ph = world.cfg, world.ph
    if wr is not None:
        if wr["ds"]["type"] == 0:
            world.src_ds.pop("yaml", None)
        if wr["fc"] == "none":
            world.src_fc.pop("yaml", None)
        if not (wr["nac"]["born"] and wr["nac"]["eps"]):
            world.src_nac.pop("yaml", None)
    if ph2 is None:
        name, msg = type(err).__name__, str(err)
        if name == "ForceCalculatorRequiredError":
            why = "solver"
        elif name == "ValueError" and "Input forces are not enough" in msg:
            why = "dataset"
        elif "TrimmedCell" in msg or "primitive cell is failed" in msg or "PRIMITIVE_AXIS" in msg:
            why = "symmetry"
        elif any((cfg["args"].get("cells") or {}).get(k) for k in ("ucfile", "scfile")):
            why = "structure"
        else:
            why = "other"
        return dict(status="raised", err=name, why=why), None
    obs = dict(status="ok", why="none")
    obs["cell"], obs["np"], snf_differs = project_cell_np(world, ph2)
    calc = ph2.calculator
    obs["calc"] = "none" if calc is None else str(calc)
    f = ph2.unit_conversion_factor
    obs["units"] = "unknown"
    for k, v in (("std", DEFAULT_FACTOR["none"]), ("qe", DEFAULT_FACTOR["qe"])):
        if abs(f - v) <= 1e-12 * v:
            obs["units"] = k
    if obs["np"]["freq"] == "own":
        obs["units"] = "qe" if obs["calc"] == "qe" else "std"  # an own factor handed to load(): not the calculator's
    q = {}
    # cells and matrices
    worst = dict(sym=True, lat=0, pos=0, mass=0, mag=0)
    pairs = ((ph.unitcell, ph2.unitcell), (ph.supercell, ph2.supercell), (ph.primitive, ph2.primitive))
    if obs["cell"]["src"] != "yaml":
        pairs = ()  # structure by argument: which cell was taken is decided through cell.src (lattices differ by construction)
    elif obs["np"]["order"] not in ("same", "unknown") and snf_differs and obs["np"]["order"] != world.obj_order:
        pairs = ((ph.unitcell, ph2.unitcell), (ph.primitive, ph2.primitive))  # supercell in the other order: ReqAtomOrder
    for a, b in pairs:
        ce = cell_err(a, b)
        worst["sym"] = worst["sym"] and ce["sym"]
        for k in ("lat", "pos", "mass", "mag"):
            worst[k] = max(worst[k], ce[k])
    q.update(symbols=worst["sym"], lattice=worst["lat"], positions=worst["pos"], masses=worst["mass"],
             magmoms=worst["mag"])
    q["smat"] = bool(np.array_equal(np.array(ph.supercell_matrix), np.array(ph2.supercell_matrix))) \
        or obs["cell"]["src"] != "yaml"
    pm1 = np.eye(3) if ph.primitive_matrix is None else np.array(ph.primitive_matrix)  # None means the unit matrix
    pm2 = np.eye(3) if ph2.primitive_matrix is None else np.array(ph2.primitive_matrix)
    q["pmat"] = err_class(pm1, pm2, 15) if obs["cell"]["src"] == "yaml" else 0
    q["maps"] = bool(len(pairs) < 3 or (np.array_equal(ph.primitive.p2s_map, ph2.primitive.p2s_map)
                                        and np.array_equal(ph.supercell.s2u_map, ph2.supercell.s2u_map)))
    # dataset
    k2 = ds_kind(ph2.dataset)
    d2, f2, e2 = disp_forces(ph2.dataset)
    dsobs = dict(src="none", type=k2["type"], forces=k2["forces"], energies=k2["energies"])
    q["ds"] = 0
    if ph2.dataset is not None:
        cands_f, cands_d = {}, {}
        for name, dset in world.src_ds.items():
            d, ff, e = disp_forces(dset)
            cands_d[name] = d
            if ff is not None and not (name == "yaml" and wr is not None and not wr["ds"]["forces"]):
                cands_f[name] = ff
        if f2 is not None:
            src, _ = nearest_source(f2, cands_f)
        else:
            src, _ = nearest_source(d2, cands_d)
        dsobs["src"] = src
        if src != "unknown":
            d, ff, e = disp_forces(world.src_ds[src])
            # decimals: yaml 16; FORCE_SETS type1 16/10, type2 8
            if src == "yaml":
                dd, df, de = 16, 16, (8 if k2["type"] == 1 else 16)
            elif ds_kind(world.src_ds[src])["type"] == 1:
                dd, df, de = 16, 10, 8
            else:
                dd, df, de = 8, 8, 8
            c = err_class(d, d2, dd)
            if f2 is not None:
                c = max(c, err_class(ff, f2, df) if ff is not None else 9)
            if e2 is not None:
                c = max(c, err_class(e, e2, de) if e is not None else 9)
            if k2["type"] == 1:
                # displaced atoms identical
                na = [x["number"] for x in world.src_ds[src]["first_atoms"]] if "first_atoms" in world.src_ds[src] else None
                nb = [x["number"] for x in ph2.dataset["first_atoms"]]
                if na != nb or ph2.dataset["natom"] != len(ph.supercell):
                    c = 9
            q["ds"] = c
            if src == "yaml":
                # zeros of the saved dataset are values: present and zero after loading (per supercell for the energies)
                z = [zeros_class(d, d2, dd)]
                if ff is not None and (wr is None or wr["ds"]["forces"]):   # (forces are in the file only if asked for)
                    z.append(zeros_class(ff, f2, df))
                o1, o2 = world.src_ds[src], ph2.dataset
                if "first_atoms" in o1 and "first_atoms" in o2 and len(o1["first_atoms"]) == len(o2["first_atoms"]):
                    for x1, x2 in zip(o1["first_atoms"], o2["first_atoms"]):
                        if "supercell_energy" in x1:
                            z.append(zeros_class([x1["supercell_energy"]],
                                                 [x2["supercell_energy"]] if "supercell_energy" in x2 else None, de))
                elif "supercell_energies" in o1:
                    z.append(zeros_class(o1["supercell_energies"], o2.get("supercell_energies"), de))
                q["zeros"] = max(q.get("zeros", 0), *z)
        else:
            q["ds"] = 9
    obs["ds"] = dsobs
    # force constants
    fcobs = dict(src="none", layout="none", sym=False)
    q["fc"] = 0
    fc2 = ph2.force_constants
    if fc2 is not None:
        lay = layout_of(ph, fc2)
        want = "compact" if cfg["args"]["isCompact"] else "full"
        fcobs["layout"] = want if lay == "both" else lay
        cands = {}
        for name, fc in world.src_fc.items():
            cands[name] = to_layout(ph, fc, fcobs["layout"])
        if dsobs["src"] not in ("none", "unknown") and dsobs["type"] == 1 and dsobs["forces"]:
            for sym in (True, False):
                try:
                    cands["produced" + ("" if sym else "_raw")] = produced_fc(
                        cfg["obj"], world.src_ds[dsobs["src"]], fcobs["layout"] == "compact", symmetrize=sym,
                        issym=obs["np"]["issym"], tol=obs["np"]["tol"] if obs["np"]["tol"] in SYMPREC else "default",
                        pmat=ph2.primitive_matrix,
                        # the dataset rows belong to the atoms of the supercell load() built
                        snf=(obs["np"]["order"] == "snf") if obs["np"]["order"] in ("snf", "classic") else bool(cfg["obj"]["np"]["snf"]))
                except Exception:
                    pass
        src, dist = nearest_source(fc2, cands, close=1e-6)
        if src.startswith("produced") and "yaml" in cands:
            # a coherent object: the force constants in the file ARE those its dataset produces; which of the two the
            # loader took cannot be told from the numbers, and does not matter - the file's are the ones it must keep
            s2, d2 = nearest_source(fc2, {"yaml": cands["yaml"]}, close=1e-9)
            if s2 == "yaml":
                src, dist = s2, d2
        fcobs["sym"] = src == "produced"
        fcobs["src"] = "produced" if src == "produced_raw" else src
        if src == "unknown":
            q["fc"] = 9
        elif src.startswith("produced"):
            q["fc"] = 0 if dist < 1e-10 else 9  # (relative to the largest element) recomputed from the same numbers
        else:
            dec = 15 if src in ("yaml", "FORCE_CONSTANTS") or (src == "fcfile" and cfg["args"]["fcFile"].startswith("txt")) else 99
            # compact -> full goes through the (Cartesian) translation operators of the code: identity matrices up
            # to rounding on a generic lattice, i.e. a relative noise of a few 1e-16 per element
            converted = world.src_fc[src].shape != fc2.shape
            q["fc"] = err_class(cands[src], fc2, dec, extra=(1e-13 * float(np.abs(fc2).max()) if converted else 0.0))
            if src == "yaml" and not converted:
                q["zeros"] = max(q.get("zeros", 0), zeros_class(cands[src], fc2, 15))
    obs["fc"] = fcobs
    # NAC
    nacobs = dict(src="none", method="none", factor="none")
    q["nac"] = 0
    nac2 = ph2.nac_params
    if nac2 is not None:
        cands = {k: np.concatenate([np.ravel(v["born"]), np.ravel(v["dielectric"])]) for k, v in world.src_nac.items()}
        val = np.concatenate([np.ravel(nac2["born"]), np.ravel(nac2["dielectric"])])
        src, _ = nearest_source(val, cands)
        nacobs["src"] = src
        m = nac2.get("method")
        nacobs["method"] = "none" if m is None else str(m)
        if src == "unknown":
            q["nac"] = 9
        else:
            q["nac"] = err_class(cands[src], val, 15 if src in ("yaml", "arg") else 8)
            if src == "yaml":
                q["zeros"] = max(q.get("zeros", 0), zeros_class(cands[src], val, 15))
                if world.src_nac[src].get("factor") is not None:
                    q["zeros"] = max(q["zeros"], zeros_class([world.src_nac[src]["factor"]],
                                                             [nac2["factor"]] if nac2.get("factor") is not None else None, 6))
            own = world.src_nac[src].get("factor")
            fac = nac2.get("factor")
            default = DEFAULT_NAC_FACTOR[obs["calc"]] if obs["calc"] in DEFAULT_NAC_FACTOR else None
            if fac is None:
                nacobs["factor"] = "missing"
            elif own is not None and abs(fac - own) <= 0.5e-6 + 1e-12:
                nacobs["factor"] = "own"
            elif default is not None and abs(fac - default) <= 1e-12 * default:
                nacobs["factor"] = "default"
            else:
                nacobs["factor"] = "unknown"
    obs["nac"] = nacobs
    q.setdefault("zeros", 0)
    obs["q"] = q
    return obs, q


def written(text):
    """What the saved file contains, read off the text without phonopy: the abstract yaml record."""
    import yaml as pyyaml
    try:
        y = pyyaml.load(text, Loader=getattr(pyyaml, 'CSafeLoader', pyyaml.SafeLoader))
    except Exception:
        y = None
    if not isinstance(y, dict):
        y = {"__unparsable__": True}
    w = dict(calc="none", ds=dict(type=0, forces=False, energies=False), fc="none",
             nac=dict(born=False, eps=False, method="none", factor=False))
    hdr = y.get("phonopy") or {}
    if "calculator" in hdr:
        w["calc"] = str(hdr["calculator"])
    t = hdr.get("symmetry_tolerance")
    w["tol"] = "default" if t is None or abs(float(t) - 1e-5) < 1e-9 else ("loose" if abs(float(t) - 1e-2) < 1e-6 else "other")
    ff = hdr.get("frequency_unit_conversion_factor")
    w["ffac"] = "own" if ff is not None and abs(float(ff) - OWN_FACTOR) < 1e-5 else "default"
    if "displacements" in y and y["displacements"] and all(isinstance(d, dict) for d in y["displacements"]):
        w["ds"] = dict(type=1, forces=all("forces" in d for d in y["displacements"]),
                       energies=all("supercell_energy" in d for d in y["displacements"]))
    elif "displacements" in y:
        w["ds"] = dict(type=9, forces=False, energies=False)  # not the documented type-1 layout
    elif "dataset" in y and isinstance(y["dataset"], dict):
        w["ds"] = dict(type=2 if "displacements" in y["dataset"] else 9, forces="forces" in y["dataset"],
                       energies="supercell_energies" in y["dataset"])
    if "force_constants" in y:
        w["fc"] = str(y["force_constants"]["format"])
    if "nac" in y:
        n = y["nac"]
        w["nac"] = dict(born="born_effective_charge" in n, eps="dielectric_constant" in n,
                        method=str(n["method"]).lower() if "method" in n else "none",
                        factor="unit_conversion_factor" in n)
    return w, y
