"""C01: the exact harmonic reference crystals and their realisation.

`reference(sessions)` runs TLC on spec/FiniteDifference.tla up to the `Cells`
step for each (entry, model, S) and returns the specification's supercell atom
list and exact integer force constants D^2 L Phi L^T (the hypotheses PermSym /
TransInv are checked in that run).  Results are cached under .cache/c01 keyed by
the content of the spec modules.  `Realised` turns one catalogue entry into a
real PhonopyAtoms cell and converts arrays between the specification's integer
covariant components / atom numbering and real Cartesian arrays in the real
code's atom order.  Nothing here calls phonopy numerics."""
from __future__ import annotations

import hashlib
import json
import os

import numpy as np

from . import tlc as tlcmod
from . import tla_values, xtal
from .oracle import class_key, det3
from .tla_values import to_tla

VERIF = tlcmod.VERIF
_MODS = ["IntLinAlg", "Crystal", "Springs", "Catalogue", "AngleSprings", "C01Catalogue", "DispAlgo", "FiniteDifference"]
SYMBOL_OF = {1: "Na", 2: "Cl", 3: "Si", 4: "O"}

CFG_REF = """SPECIFICATION Spec
CONSTANTS
 Sessions <- MCSessions
 PMs <- MCPMs
 Diags <- MCDiags
 Syms <- MCSyms
 Trigs <- MCTrigs
 Scales <- MCScales
CHECK_DEADLOCK FALSE
CONSTRAINT StopAfterCells
INVARIANT HypReps
INVARIANT HypPermSym
INVARIANT HypTransInv
INVARIANT HypPTrans
INVARIANT HypAut
INVARIANT HypNonTrivial
"""


def _spec_hash():
    h = hashlib.blake2b(digest_size=8)
    for m in _MODS:
        with open(os.path.join(tlcmod.SPEC, m + ".tla"), "rb") as f:
            h.update(f.read())
    return h.hexdigest()


def skey(s):
    return json.dumps([s["entry"], s["model"], [[int(x) for x in r] for r in s["S"]]])
    # (the reference array does not depend on the magnetic flag: it only selects the symmetry group)


def session_tla(s, extra=None):
    d = dict(entry=s["entry"], S=[[int(x) for x in r] for r in s["S"]],
             ptrans=frozenset(tuple(int(x) for x in t) for t in s["ptrans"]), box=int(s.get("box", 3)),
             model=s["model"], chk=bool(s.get("chk", False)), mag=s.get("mag", "none"), hom=bool(s.get("hom", False)))
    if extra:
        d.update(extra)
    return to_tla(d)


def reference(sessions, ctx=None, workers=None, timeout=1500):
    """-> {skey: dict(atoms=[{a,u}], fc=[[3x3 int]])}, crystals {entry: dict(G,D,atoms)}"""
    sh = _spec_hash()
    cdir = os.path.join(VERIF, ".cache", "c01")
    os.makedirs(cdir, exist_ok=True)
    out, crystals, todo = {}, {}, []
    for s in sessions:
        k = skey(s)
        if k in out:
            continue
        cp = os.path.join(cdir, hashlib.blake2b((sh + k).encode(), digest_size=10).hexdigest() + ".json")
        if os.path.exists(cp):
            with open(cp) as f:
                d = json.load(f)
            out[k] = d["cell"]
            crystals[s["entry"]] = d["crystal"]
            if ctx is not None:
                ctx.tlc_runs.append(dict(module="FiniteDifference(reference)", cfg="(generated, cached result)", key=k))
        else:
            todo.append((s, k, cp))
            out[k] = None
    if todo:
        names = sorted({s["entry"] for s, _, _ in todo})
        # ptrans is irrelevant up to Cells; use {0} so that equal (entry, model, S) coincide
        seen_entries = set()
        for s, _, _ in todo:          # the brute-force comparison of the space group once per entry
            s["chk"] = s["entry"] not in seen_entries
            seen_entries.add(s["entry"])
        mc = ("---- MODULE MC_FDRef ----\nEXTENDS FiniteDifference\nMCSessions == {%s}\nMCPMs == {}\nMCDiags == {}\nMCSyms == {}\nMCTrigs == {}\nMCScales == {}\n"
              "StopAfterCells == pc \\in {\"start\", \"bonds\", \"series\", \"atoms\", \"keys\", \"cells\"}\n"
              "ASSUME \\A n \\in %s : PrintT(<<\"CRYSTAL\", n, EntryOf(n).G, EntryOf(n).D, EntryOf(n).atoms>>)\n====\n"
              % (", ".join(session_tla(dict(s, ptrans=[[0, 0, 0]], mag="none", hom=False)) for s, _, _ in todo), to_tla(set(names))))
        res = tlcmod.run("MC_FDRef", cfg_text=CFG_REF, extra_files={"MC_FDRef.tla": mc}, dump=True, keep=True,
                         workers=workers or min(8, max(2, len(todo))), timeout=timeout)
        try:
            if res.violated:
                raise tlcmod.MachineryError("reference model violates %s (specification defect)\n%s"
                                            % (res.violated, res.stdout[-1500:]))
            for v in tlcmod.printed_values(res.stdout):
                if isinstance(v, list) and v and v[0] == "CRYSTAL":
                    crystals[v[1]] = dict(G=v[2], D=v[3], atoms=[dict(a) for a in v[4]])
            states = tla_values.parse_dump(res.dump_path)
        finally:
            tlcmod.cleanup(res)
        if ctx is not None:
            ctx.states += res.distinct
            ctx.transitions += res.generated
            ctx.tlc_runs.append(dict(module="FiniteDifference(reference)", cfg="(generated)", **res.summary()))
        for st in states:
            if st["pc"] != "cells":
                continue
            se = st["ses"]
            k = json.dumps([se["entry"], se["model"], [list(r) for r in se["S"]]])
            out[k] = dict(atoms=[dict(a=a["a"], u=list(a["u"])) for a in st["atoms"]],
                          fc=[[[list(r) for r in blk] for blk in row] for row in st["fc"]])
        for s, k, cp in todo:
            if out.get(k) is None:
                raise tlcmod.MachineryError("reference run produced no cell for %s" % k)
            tmp = cp + ".tmp%d" % os.getpid()
            with open(tmp, "w") as f:
                json.dump(dict(cell=out[k], crystal=crystals[s["entry"]]), f)
            os.replace(tmp, cp)
    return out, crystals


class Realised:
    """One catalogue entry on a real, randomly oriented lattice."""

    def __init__(self, crystal, a=2.0, seed=0, left_handed=False, mag="none", perturb=0.0):
        """mag: "none"; "ferri": ONE chemical symbol, collinear moments +2 / -1 by species (magnitudes differ:
        the magnetic group is the species-preserving group); "afm": moments +1 / -1 (equal magnitudes: the
        magnetic group also contains the operations exchanging the sublattices).  perturb: Cartesian amplitude
        of a random position noise (to be kept below symprec)."""
        self.mag = mag
        self.perturb = float(perturb)
        self._rng = np.random.default_rng(seed + 7919)
        self.cr = crystal
        self.D = int(crystal["D"])
        self.G = np.array(crystal["G"], dtype=float)
        self.L = xtal.lattice_from_gram(self.G, a=a, rng=np.random.default_rng(seed))
        self.left_handed = bool(left_handed)
        if left_handed:      # the mirror image of the crystal: same Gram matrix, det L < 0
            self.L = np.ascontiguousarray(self.L @ np.diag([-1.0, 1.0, 1.0]))
        self.Linv = np.linalg.inv(self.L)
        self.species = [at["sp"] for at in crystal["atoms"]]
        self.masses = [float(at["m"]) for at in crystal["atoms"]]
        self.num = [list(at["num"]) for at in crystal["atoms"]]

    def unitcell(self):
        from phonopy.structure.atoms import PhonopyAtoms

        pos = np.array(self.num, dtype=float) / self.D
        if self.perturb:
            noise = self._rng.uniform(-1, 1, size=pos.shape)
            noise *= self.perturb / np.sqrt(3.0) / np.abs(noise).max()
            pos = pos + noise @ self.Linv          # Cartesian noise of length <= perturb
        if self.mag == "none":
            return PhonopyAtoms(symbols=[SYMBOL_OF[s] for s in self.species], scaled_positions=pos,
                                cell=self.L, masses=self.masses)
        moments = {"ferri": {1: 2.0, 2: -1.0}, "afm": {1: 1.0, 2: -1.0}}[self.mag]
        return PhonopyAtoms(symbols=[SYMBOL_OF[1]] * len(self.species), scaled_positions=pos, cell=self.L,
                            masses=self.masses, magnetic_moments=[moments[s] for s in self.species])

    def match_atoms(self, S, cell, supercell):
        """real supercell atom k -> 0-based index in the specification's atom list (by position)."""
        spec_index = {(at["a"], class_key(S, self.D, at["u"])): k for k, at in enumerate(cell["atoms"])}
        u, resid = xtal.project_to_unit(supercell.positions, self.L, self.D)
        if resid > 1e-6 + 2 * self.perturb * self.D:
            raise AssertionError("supercell positions are not on the 1/D grid: %g" % resid)
        idx = []
        for k in range(len(supercell)):
            a = None
            for ai, n in enumerate(self.num):
                if all((int(u[k][i]) - n[i]) % self.D == 0 for i in range(3)) and \
                        (self.mag != "none" or SYMBOL_OF[self.species[ai]] == supercell.symbols[k]):
                    a = ai + 1
                    break
            idx.append(spec_index[(a, class_key(S, self.D, u[k]))])
        if sorted(idx) != list(range(len(supercell))):
            raise AssertionError("atom matching is not a bijection")
        return idx

    def to_real(self, T_spec, idx):
        """integer array (spec order, D^2 L Phi L^T) -> Cartesian (n,n,3,3) in the real atom order."""
        T = np.array(T_spec, dtype=float)[np.ix_(idx, idx)] / self.D ** 2
        return np.einsum("ab,ijbc,dc->ijad", self.Linv, T, self.Linv)

    def project(self, fc_real, row_idx, idx):
        """Cartesian (m,n,3,3) array (rows = real atoms row_idx... in any order, columns real order) ->
        (integer array with columns in spec order, rows in the given order; max rounding residual)."""
        T = np.einsum("ab,ijbc,dc->ijad", self.L, np.asarray(fc_real, dtype=float), self.L) * self.D ** 2
        n = T.shape[1]
        inv = np.empty(n, dtype=int)
        inv[np.array(idx)] = np.arange(n)
        T = T[:, inv]          # columns to spec order
        R = np.rint(T)
        # residual per 3x3 block, relative to 1 + 1e-3 * max|block|: the tolerance 1e-6 on it means
        # 1e-6 absolute (a wrong integer is off by >= 1) plus 1e-9 of the block's magnitude (binary64 round-off of
        # the inputs, e.g. positions(cell) - positions(supercell), is relative to the block, not to the smallest one)
        if T.size:
            blk = np.abs(T - R).max(axis=(2, 3)) / (1.0 + 1e-3 * np.abs(R).max(axis=(2, 3)))
            self.last_abs_resid = float(np.abs(T - R).max())
            return R.astype(np.int64), float(blk.max())
        self.last_abs_resid = 0.0
        return R.astype(np.int64), 0.0
