"""C14 bulk dimension: large BATCHED calls (run_qpoints over thousands of generic q-points, dense mesh without
symmetry) for every NAC class, repeated.  The C loop over q-points runs in parallel in the OpenMP build; what an
element of the returned arrays is must not depend on the size of the batch or on its position in it.

 * a sample of the batch is projected to specification tokens exactly like the small calls (events for
   AccessPathsTrace, cfg.qs = the sampled q-points);
 * whole-array facts: every dynamical matrix / frequency row of the batch against DynamicalMatrix.run(q)
   one q at a time on the same build (perq), and the arrays are saved so that the parent compares the
   OpenMP batch with the serial batch (serial).

    VERIF_EXT_VARIANT=omp|serial OMP_NUM_THREADS=4 python -m harness.c14_bulk plan.json outdir
"""
from __future__ import annotations

import contextlib
import io
import json
import os
import sys
import time
import warnings

from harness import bootstrap  # noqa: F401

import numpy as np  # noqa: E402

warnings.simplefilter("ignore")

import phonopy._phonopy as phonoc  # noqa: E402

from harness.c14_driver import World, classify  # noqa: E402

TOL = 1e-9


def base_cfg(path, omp, nac, qs, wdm):
    return dict(path=path, kind="na", omp=omp, nac=nac, dec=False, wev=True, wgv=False, wdm=wdm, conn=False, dir=False,
                shape="na", meshlen=False, gc=(path == "mesh"), qs=qs, fac="vasp", lay="carray")


def perq_reference(ph, qs):
    """dynamical matrices one q-point at a time through the dynamical-matrix object"""
    dmo = ph.dynamical_matrix
    out = np.zeros((len(qs),) + (3 * len(ph.primitive),) * 2, dtype=complex)
    for i, q in enumerate(qs):
        dmo.run(q)
        out[i] = dmo.dynamical_matrix
    return out


def sample_event(world, cfg, qvecs, raw, factor, evid, facts, rep):
    qids = ["G" if np.abs(q).max() < 1e-9 else "q%d" % (k + 1) for k, q in enumerate(qvecs)]
    cfg = dict(cfg, qs=qids)
    ev = dict(id=evid, entry=world.entry, cfg=cfg, args=dict(bulk=True, repeat=rep, sample_q=[list(map(float, q)) for q in qvecs]), files=[],
              out=dict(err="none", freq=[], eigvec=[], dm=[], gv=[], gc=("gamma" if cfg["path"] == "mesh" else "na"), diag="na",
                       iter="na", permok="na"))
    classify(world, ev, qvecs, None, raw, factor)
    ev["out"]["bulk"] = "ok" if all(v <= TOL for v in facts.values()) else "bad"
    ev["bulk_facts"] = facts
    return ev


def main(argv):
    plan_path, outdir = argv
    with open(plan_path) as f:
        plan = json.load(f)
    omp = bool(phonoc.use_openmp())
    rng = np.random.default_rng([plan["seed"], 145])       # the same q-points in both builds
    nq, mesh, reps, nsample = plan["nq"], plan["mesh"], plan["repeats"], plan["sample"]
    world = World(plan["entry"], plan["seed"])
    qs = rng.uniform(-0.5, 0.5, size=(nq, 3)).round(6)
    pick = sorted(set([0, nq - 1, nq // 2] + [int(x) for x in rng.integers(0, nq, size=nsample)]))[:nsample]
    events = []
    evid = plan["id_base"]
    t0 = time.time()
    for nac in ("none", "wang", "gl"):
        ph = world.phonopy(nac, False)
        factor = ph.unit_conversion_factor
        with contextlib.redirect_stdout(io.StringIO()):
            ref = perq_reference(ph, qs)
            lam_ref = np.array([np.linalg.eigvalsh(d) for d in ref])
            scale = max(1.0, np.abs(ref).max())
            for rep in range(reps):
                # one large q-point list
                ph.run_qpoints(qs, with_eigenvectors=True, with_dynamical_matrices=True)
                d = ph.get_qpoints_dict()
                D = np.array(d["dynamical_matrices"])
                fr = np.array(d["frequencies"])
                lam = np.sign(fr) * (fr / factor) ** 2
                facts = dict(dm_vs_perq=float(np.abs(D - ref).max() / scale), freq_vs_perq=float(np.abs(lam - lam_ref).max() / scale))
                np.save(os.path.join(outdir, "D_%s_%s_%d.npy" % ("omp" if omp else "serial", nac, rep)), D)
                evid += 1
                raw = dict(freq=fr[pick], eigvec=np.array(d["eigenvectors"])[pick], dm=D[pick], gv=None)
                events.append(sample_event(world, base_cfg("qpoints", omp, nac, [], True), [qs[i] for i in pick], raw, factor, evid, facts, rep))
                # one dense mesh without symmetry
                ph.run_mesh(mesh, is_mesh_symmetry=False, with_eigenvectors=True, is_gamma_center=True)
                md = ph.get_mesh_dict()
                mq = np.array(md["qpoints"])
                mfr = np.array(md["frequencies"])
                if rep == 0:
                    mref = perq_reference(ph, mq)
                    mlam_ref = np.array([np.linalg.eigvalsh(x) for x in mref])
                mlam = np.sign(mfr) * (mfr / factor) ** 2
                facts = dict(freq_vs_perq=float(np.abs(mlam - mlam_ref).max() / scale))
                np.save(os.path.join(outdir, "F_%s_%s_%d.npy" % ("omp" if omp else "serial", nac, rep)), mlam)
                mpick = sorted(set([0, len(mq) - 1, len(mq) // 2] + [int(x) for x in np.linspace(1, len(mq) - 2, nsample).astype(int)]))[:nsample]
                evid += 1
                raw = dict(freq=mfr[mpick], eigvec=np.array(md["eigenvectors"])[mpick], dm=None, gv=None)
                events.append(sample_event(world, base_cfg("mesh", omp, nac, [], False), [mq[i] for i in mpick], raw, factor, evid, facts, rep))
    with open(os.path.join(outdir, "bulk_%s.json" % ("omp" if omp else "serial")), "w") as f:
        json.dump(dict(omp=omp, events=events, wall=time.time() - t0, threads=os.environ.get("OMP_NUM_THREADS")), f)


if __name__ == "__main__":
    main(sys.argv[1:])
