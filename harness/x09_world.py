"""X09 helpers: directory worlds (real small files), the two drivers of the real front end and the projection
of what they return to the tokens of spec/CellInfo.tla.

Slots (file names in the working directory) and the abstract content kinds a slot can hold:
  none    absent
  vasp    a valid POSCAR-style file
  qe      a valid QE pw.x input (not parseable as POSCAR, not a YAML mapping)
  yaml    a phonopy yaml (variant: header / supercell_matrix / primitive_matrix / calculator / magnetic moments)
  yother  a YAML mapping that is no phonopy yaml (no unit_cell, no supercell_matrix, no phonopy header)
  junk    plain text (YAML scalar), neither POSCAR nor mapping
  ybroken text on which the YAML parser raises ParserError
Every slot holds its own structure (lattice parameter 4 + slot index / 10), its own supercell matrix, primitive matrix,
calculator name and magnetic moments, so that the source of every returned setting is identifiable.
"""
from __future__ import annotations

import contextlib
import io
import os
import re
import sys

import numpy as np

SLOTS = ["POSCAR", "unitcell.in", "phonopy_disp.yaml", "phonopy.yaml", "phonopy_params.yaml", "NaCl-cell"]
SLOT_CALC = {"phonopy_disp.yaml": "abinit", "phonopy.yaml": "elk", "phonopy_params.yaml": "siesta", "NaCl-cell": "wien2k"}
PERMS = [[0, 1, 2], [0, 2, 1], [1, 0, 2], [1, 2, 0], [2, 0, 1], [2, 1, 0]]
OPT_DIM = [[2, 0, 0], [0, 2, 0], [0, 0, 2]]
OPT_PA_MATRIX = [[0.0, 0.5, 0.5], [0.5, 0.0, 0.5], [0.5, 0.5, 0.0]]
MAG_OK = [7.0, -7.0]
MAG_BAD = [7.0, 7.0, 7.0]


def slot_a(slot):
    return 4.0 + SLOTS.index(slot) / 10.0


def slot_dim(slot):
    n = 3 + SLOTS.index(slot)
    return [[n, 0, 0], [0, n, 0], [0, 0, n]]


def slot_pa(slot):
    k = float(SLOTS.index(slot) + 1)          # a shear: determinant 1, distinct per slot
    return [[1.0, k, 0.0], [0.0, 1.0, 0.0], [0.0, 0.0, 1.0]]


def slot_mag(slot):
    m = 1.0 + SLOTS.index(slot)
    return [m, -m]


def _poscar(a):
    return ("NaCl cell\n1.0\n%.6f 0.0 0.0\n0.0 %.6f 0.0\n0.0 0.0 %.6f\nNa Cl\n1 1\nDirect\n0.0 0.0 0.0\n0.5 0.5 0.5\n"
            % (a, a, a))


def _qe(a):
    return ("&control\n calculation = 'scf'\n/\n&system\n ibrav = 0\n nat = 2\n ntyp = 2\n/\nCELL_PARAMETERS bohr\n"
            "%.6f 0.0 0.0\n0.0 %.6f 0.0\n0.0 0.0 %.6f\nATOMIC_SPECIES\n Na 22.98976928 Na.UPF\n Cl 35.453 Cl.UPF\n"
            "ATOMIC_POSITIONS crystal\n Na 0.0 0.0 0.0\n Cl 0.5 0.5 0.5\n" % (a, a, a))


def _yaml(slot, var):
    a = slot_a(slot)
    lines = []
    if var["hdr"]:
        lines += ["phonopy:", '  version: "2.38.0"']
        if var["calc"]:
            lines.append("  calculator: %s" % SLOT_CALC[slot])
        lines.append("")
    if var["dim"]:
        lines.append("supercell_matrix:")
        lines += ["- [ %d, %d, %d ]" % tuple(r) for r in slot_dim(slot)]
        lines.append("")
    if var["pa"]:
        lines.append("primitive_matrix:")
        lines += ["- [ %.15f, %.15f, %.15f ]" % tuple(r) for r in slot_pa(slot)]
        lines.append("")
    lines += ["unit_cell:", "  lattice:"]
    for i in range(3):
        lines.append("  - [ %s ]" % ", ".join("%.15f" % (a if i == j else 0.0) for j in range(3)))
    lines.append("  points:")
    mags = slot_mag(slot)
    for k, (sym, x, m) in enumerate((("Na", 0.0, 22.98976928), ("Cl", 0.5, 35.453))):
        lines += ["  - symbol: %s # %d" % (sym, k + 1), "    coordinates: [ %.15f, %.15f, %.15f ]" % (x, x, x),
                  "    mass: %.6f" % m]
        if var["mag"]:
            lines.append("    magnetic_moment: %.8f" % mags[k])
    return "\n".join(lines) + "\n"


def content(slot, kind, var):
    a = slot_a(slot)
    if kind == "vasp":
        return _poscar(a)
    if kind == "qe":
        return _qe(a)
    if kind == "yaml":
        return _yaml(slot, var)
    if kind == "yother":
        return "frequency_unit_conversion_factor: 15.6\nnote:\n- 1\n- 2\n"
    if kind == "junk":
        return "these lines are no crystal structure\nat all\n"
    if kind == "ybroken":
        return "unit_cell:\n  lattice:\n  - [ 4.0, 0.0, 0.0\n  points: }\n"
    raise ValueError(kind)


def write_world(d, files, var):
    """files: {slot: kind}; removes what was there before."""
    for f in os.listdir(d):
        os.unlink(os.path.join(d, f))
    for slot, kind in files.items():
        if kind != "none":
            with open(os.path.join(d, slot), "w") as fh:
                fh.write(content(slot, kind, var))


# ---- projection ------------------------------------------------------------------------------------------------------
def _tok_dim(m):
    if m is None:
        return "none"
    m = np.array(m)
    if m.shape == (3,):
        m = np.diag(m)
    m = m.tolist()
    if m == OPT_DIM:
        return "opt"
    for s in SLOTS:
        if m == slot_dim(s):
            return "y:" + s
    return "?:%s" % (m,)


def _tok_pa(p):
    if p is None:
        return "none"
    if isinstance(p, str):
        return p
    p = np.array(p, dtype=float)
    if p.shape == (3, 3):
        if np.array_equal(p, np.array(OPT_PA_MATRIX)):
            return "M"
        for s in SLOTS:
            if np.array_equal(p, np.array(slot_pa(s))):
                return "y:" + s
    return "?:%s" % (p.tolist(),)


def _tok_mag(m):
    if m is None:
        return "none"
    m = [float(x) for x in np.ravel(m)]
    if m == MAG_OK:
        return "opt"
    for s in SLOTS:
        if m == slot_mag(s):
            return "y:" + s
    return "?:%s" % (m,)


def _tok_cell(cell):
    a = float(cell.cell[0][0])
    for s in SLOTS:
        if abs(a - slot_a(s)) < 1e-9 or abs(a - slot_a(s) * 0.529177) < 1e-3:   # QE input is in bohr
            ok = list(cell.symbols) == ["Na", "Cl"] and np.allclose(cell.scaled_positions, [[0, 0, 0], [.5, .5, .5]])
            return s if ok else "?cell"
    return "?a=%r" % a


def _classify(msg):
    """Which statements the message makes (substring facts only; the judgement is TLC's)."""
    facts = set()
    table = [("notspecified", "Crystal structure file was not specified."),
             ("vaspfail", "as in VASP format failed."),
             ("calchint", "Calculator option is needed"),
             ("nodimgiven", "Supercell matrix (DIM or --dim) was not explicitly specified."),
             ("yamlmode", "Switched on phonopy-yaml mode."),
             ("noyaml", "could not be found."),
             ("yamlparse", "But parsing "),
             ("readfrom", "Crystal structure was read from "),
             ("nodim", "Supercell matrix information (DIM or --dim) was not found."),
             ("nodimyaml", "'supercell_matrix' not found"),
             ("oldstyle", "this is the old style way"),
             ("righthand", "right-hand rule"),
             ("badmagmom", "Invalid MAGMOM setting"),
             ("magauto", "are not allowed using with")]
    for k, s in table:
        if s in msg:
            facts.add(k)
    if re.search(r'"[^"]+" was not found\.', msg):
        facts.add("notfound")
    return facts


def _mentions(msg):
    return set(s for s in SLOTS if '"%s"' % s in msg)


def project(cell_info):
    if "error_message" in cell_info:
        msg = cell_info["error_message"]
        return dict(st="err", facts=_classify(msg), ment=_mentions(msg), msg=msg)
    osi = cell_info["optional_structure_info"]
    uc = cell_info["unitcell"]
    src = _tok_cell(uc)
    if str(osi[0]) != src:
        src = "?%s/%s" % (src, osi[0])           # the file reported is not the file the structure came from
    return dict(st="ok", src=src, fname=str(osi[0]), mode=cell_info["interface_mode"] or "none",
                dim=_tok_dim(cell_info["supercell_matrix"]), pa=_tok_pa(cell_info["primitive_matrix"]),
                mag=_tok_mag(uc.magnetic_moments), yml=cell_info["phonopy_yaml"] is not None)


@contextlib.contextmanager
def _cwd(d):
    old = os.getcwd()
    os.chdir(d)
    try:
        yield
    finally:
        os.chdir(old)


def opt_values(o):
    dim = np.array(OPT_DIM) if o["dim"] else None
    pa = {"none": None, "F": "F", "auto": "auto", "M": np.array(OPT_PA_MATRIX)}[o["pa"]]
    calc = None if o["calc"] == "none" else o["calc"]
    name = None if o["name"] == "none" else o["name"]
    return dim, pa, calc, name


def call_collect(d, o):
    """Layer 1: phonopy.cui.collect_cell_info.collect_cell_info called directly."""
    from phonopy.cui.collect_cell_info import collect_cell_info
    from phonopy.interface.phonopy_yaml import PhonopyYaml

    dim, pa, calc, name = opt_values(o)
    out = io.StringIO()
    with _cwd(d), contextlib.redirect_stdout(out), contextlib.redirect_stderr(out):
        try:
            ci = collect_cell_info(supercell_matrix=dim, primitive_matrix=pa, interface_mode=calc, cell_filename=name,
                                   enforce_primitive_matrix_auto=bool(o.get("bauto")), phonopy_yaml_cls=PhonopyYaml,
                                   load_phonopy_yaml=bool(o["load"]))
        except Exception as e:  # noqa: BLE001 - an exception of the front end is an observable result
            return dict(st="exc", exc=type(e).__name__, msg=str(e)[:300], ment=_mentions(str(e).replace("'", '"')))
    return project(ci)


_PARSERS = {}
CONTROL = {"phonopy": {"fc_symmetry": False, "is_nac": False, "load_phonopy_yaml": False},
           "load": {"fc_symmetry": True, "is_nac": True, "load_phonopy_yaml": True}}


def _parser(cmd):
    from phonopy.cui.phonopy_argparse import get_parser

    if cmd not in _PARSERS:
        old = sys.argv
        sys.argv = ["phonopy"]
        try:
            _PARSERS[cmd] = get_parser(**CONTROL[cmd])[0]
        finally:
            sys.argv = old
    return _PARSERS[cmd]


CALC_TAG = {"vasp": "--vasp", "qe": "--qe"}


def frontend_inputs(o, route):
    """argv and conf-file lines that express the options o; route[k] in {"opt", "conf", "both"} for k in
    dim, pa, mag, name ("both": the conf file holds a DIFFERENT value and the option must win)."""
    argv, conf = [], []
    load = bool(o["load"])
    if o["calc"] != "none":
        argv.append(CALC_TAG[o["calc"]])
    if o["dim"]:
        r = route.get("dim", "opt")
        if r in ("opt", "both") and not load:
            argv += ["--dim", "2", "2", "2"]
            if r == "both":
                conf.append("DIM = 9 9 9")
        else:
            conf.append("DIM = 2 2 2")
    if o["pa"] != "none":
        val = {"F": "F", "auto": "auto", "M": "0 1/2 1/2 1/2 0 1/2 1/2 1/2 0"}[o["pa"]]
        r = route.get("pa", "opt")
        if r in ("opt", "both"):
            argv += ["--pa"] + val.split()
            if r == "both":
                conf.append("PRIMITIVE_AXES = I")
        else:
            conf.append("PRIMITIVE_AXES = " + val)
    if o.get("bauto"):
        argv += ["--band", "auto"]
    if o.get("mag", "none") != "none":
        val = " ".join("%g" % x for x in (MAG_OK if o["mag"] == "ok" else MAG_BAD))
        r = route.get("mag", "opt")
        if r in ("opt", "both"):
            argv += ["--magmom"] + val.split()
            if r == "both":
                conf.append("MAGMOM = 5 5")
        else:
            conf.append("MAGMOM = " + val)
    if o["name"] != "none":
        r = route.get("name", "opt")
        if load:
            if r == "conf":
                conf.append("CELL_FILENAME = " + o["name"])
            else:
                argv.insert(0, o["name"])
        else:
            if r in ("opt", "both"):
                argv += ["-c", o["name"]]
                if r == "both":
                    conf.append("CELL_FILENAME = phonopy_params.yaml")
            else:
                conf.append("CELL_FILENAME = " + o["name"])
    return argv, conf


def call_frontend(d, o, route):
    """Layer 2: argv (+ configuration file) -> phonopy_script._read_phonopy_settings -> _get_cell_info, exactly the
    sequence of phonopy_script.main up to the resolved cell."""
    from phonopy.cui import phonopy_script as ps

    cmd = "load" if o["load"] else "phonopy"
    argv, conf = frontend_inputs(o, route)
    out = io.StringIO()
    with _cwd(d), contextlib.redirect_stdout(out), contextlib.redirect_stderr(out):
        try:
            if conf:
                with open("x09.conf", "w") as fh:
                    fh.write("\n".join(conf) + "\n")
                argv = (["--config", "x09.conf"] + argv) if o["load"] else (["x09.conf"] + argv)
            args = _parser(cmd).parse_args(argv)
            settings, _confs, cell_filename = ps._read_phonopy_settings(args, CONTROL[cmd], 0)
            ci = ps._get_cell_info(settings, cell_filename, log_level=0, load_phonopy_yaml=bool(o["load"]))
        except SystemExit:
            msg = out.getvalue()
            return dict(st="err", facts=_classify(msg), ment=_mentions(msg), msg=msg, argv=argv, conf=conf)
        except Exception as e:  # noqa: BLE001
            return dict(st="exc", exc=type(e).__name__, msg=str(e)[:300], ment=_mentions(str(e).replace("'", '"')),
                        argv=argv, conf=conf)
        finally:
            if os.path.exists("x09.conf"):
                os.unlink("x09.conf")
    r = project(ci)
    r["argv"], r["conf"] = argv, conf
    return r


def call_main(d, o, route):
    """Layer 3: the whole command (phonopy_script.main as the installed scripts start it); used only where the run is
    expected to stop right after the cell is resolved."""
    from harness.c18_cli import run_cli

    cmd = "load" if o["load"] else "phonopy"
    argv, conf = frontend_inputs(o, route)
    try:
        if conf:
            with open(os.path.join(d, "x09.conf"), "w") as fh:
                fh.write("\n".join(conf) + "\n")
            argv = (["--config", "x09.conf"] + argv) if o["load"] else (["x09.conf"] + argv)
        import signal

        def _late(signum, frame):
            raise TimeoutError("the command went on computing")

        signal.signal(signal.SIGALRM, _late)
        signal.alarm(20)                  # a run that stops here takes milliseconds
        try:
            r = run_cli(cmd, argv, d)
        finally:
            signal.alarm(0)
    finally:
        if os.path.exists(os.path.join(d, "x09.conf")):
            os.unlink(os.path.join(d, "x09.conf"))
    msg = r["stdout"]
    if r["exc"] and r["exc"].startswith("TimeoutError"):
        return dict(st="ok", src="?main-went-on", fname="", mode="none", dim="none", pa="none", mag="none", yml=False)
    if r["exc"]:
        return dict(st="exc", exc=r["exc"].split(":")[0], msg=r["exc"][:300], ment=set())
    if r["code"] != 0:
        return dict(st="err", facts=_classify(msg) & {"magauto", "badmagmom"}, ment=_mentions(msg), msg=msg[-600:])
    return dict(st="ok", src="?main-went-on", fname="", mode="none", dim="none", pa="none", mag="none", yml=False)


# ---- replay of a group of worlds that share the directory content -----------------------------------------------------
def parse_key(key):
    p = key.split("|")
    fl = dict(zip(SLOTS, p[:6]))
    yv = dict(zip(("hdr", "dim", "pa", "calc", "mag"), [c == "1" for c in p[6]]))
    return dict(fl=fl, yv=yv, load=p[7] == "1", calc=p[8], name=p[9], dim=p[10] == "1", pa=p[11], bauto=p[12] == "1",
                mag=p[13])


def slim(r):
    if r["st"] == "ok":
        return dict(st="ok", src=r["src"], mode=r["mode"], dim=r["dim"], pa=r["pa"], mag=r["mag"], yml=r["yml"],
                    facts=[], ment=[])
    if r["st"] == "err":
        return dict(st="err", src="none", mode="none", dim="none", pa="none", mag="none", yml=False,
                    facts=sorted(r["facts"]), ment=sorted(r["ment"]), msg=r["msg"][:600])
    return dict(st="exc", src="none", mode="none", dim="none", pa="none", mag="none", yml=False, facts=[],
                ment=sorted(r["ment"]), msg="%s: %s" % (r["exc"], r["msg"]))


def replay_group(task):
    """task = (list of keys sharing fl and yv, route seed) -> [(key, layer, route, outcome)]"""
    import random
    import shutil
    import tempfile

    os.environ.setdefault("OMP_NUM_THREADS", "1")
    from harness import bootstrap  # noqa: F401

    keys, seed, mainkeys = task
    d = tempfile.mkdtemp(prefix="x09_")
    out = []
    try:
        w0 = parse_key(keys[0])
        write_world(d, w0["fl"], w0["yv"])
        for key in keys:
            w = parse_key(key)
            if w["mag"] == "none":
                out.append((key, "collect", "", slim(call_collect(d, w))))
            rnd = random.Random("%s/%s" % (seed, "|".join(key.split("|")[6:])))    # same routes in the cleared world
            route = {k: rnd.choice(("opt", "conf", "both")) for k in ("dim", "pa", "mag", "name")}
            if w["load"]:
                route["name"] = rnd.choice(("opt", "conf"))
            out.append((key, "front", ",".join("%s=%s" % kv for kv in sorted(route.items())),
                        slim(call_frontend(d, w, route))))
            if key in mainkeys:
                out.append((key, "main", out[-1][2], slim(call_main(d, w, route))))
            left = set(os.listdir(d)) - set(s for s, k in w0["fl"].items() if k != "none")
            if left:
                raise RuntimeError("x09: the front end left files behind: %s" % sorted(left))
    finally:
        shutil.rmtree(d, True)
    return out
