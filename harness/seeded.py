"""Run the registered quick checks against the seeded changes kept in /verif/seeded/<id>/.

  /venv/bin/python -m harness.seeded [ids...] [--in-repo]

Default: each patch is applied in a scratch worktree of /repo under /tmp (removed afterwards) and the
check runs with VERIF_REPO pointing at it.  --in-repo applies the patch to /repo itself
(git -C /repo apply) and restores it straight afterwards (git -C /repo checkout -- .).
Results go to seeded/RESULTS.json (never into a property's evidence)."""
import json
import os
import shutil
import subprocess
import sys
import time

VERIF = os.path.dirname(os.path.dirname(os.path.abspath(__file__)))
SEEDED = os.path.join(VERIF, "seeded")


def run_one(sid, in_repo):
    d = os.path.join(SEEDED, sid)
    meta = json.load(open(os.path.join(d, "meta.json")))
    patch = os.path.join(d, "patch.diff")
    props = meta["property"] if isinstance(meta["property"], list) else [meta["property"]]
    extra = meta.get("also_run", [])
    env = dict(os.environ)
    if in_repo:
        repo = "/repo"
        subprocess.check_call(["git", "-C", repo, "apply", patch])
    else:
        repo = "/tmp/wt_seed_%s_%d" % (sid, os.getpid())
        subprocess.check_call(["git", "-C", "/repo", "worktree", "add", "--detach", "-q", repo])
        subprocess.check_call(["git", "-C", repo, "apply", patch])
        env["VERIF_REPO"] = repo
    out = {}
    try:
        for pid in props + extra:
            t0 = time.time()
            r = subprocess.run([os.path.join(VERIF, "check"), pid, "--tier", meta.get("tier", "quick")], env=env,
                               stdout=subprocess.PIPE, stderr=subprocess.STDOUT, text=True)
            viol = [l for l in r.stdout.splitlines() if l.startswith("VIOLATION")]
            what = [l.strip() for l in r.stdout.splitlines() if l.startswith("  ")][:3]
            out[pid] = dict(exit=r.returncode, detected=bool(r.returncode == 1 and viol), violations=len(viol),
                            first=what[:2], wall_s=round(time.time() - t0, 1))
    finally:
        if in_repo:
            subprocess.check_call(["git", "-C", "/repo", "checkout", "--", "."])
        else:
            subprocess.call(["git", "-C", "/repo", "worktree", "remove", "--force", repo])
            shutil.rmtree(repo, ignore_errors=True)
    return out


def main():
    args = [a for a in sys.argv[1:] if not a.startswith("--")]
    in_repo = "--in-repo" in sys.argv
    ids = args or sorted(x for x in os.listdir(SEEDED) if os.path.isdir(os.path.join(SEEDED, x)))
    respath = os.path.join(SEEDED, "RESULTS.json")
    results = json.load(open(respath)) if os.path.exists(respath) else {}
    for sid in ids:
        res = run_one(sid, in_repo)
        print(sid, {k: ("DETECTED" if v["detected"] else "missed(exit %s)" % v["exit"]) for k, v in res.items()})
        import fcntl
        with open(respath + ".lock", "w") as lk:  # several runners may work in parallel
            fcntl.flock(lk, fcntl.LOCK_EX)
            results = json.load(open(respath)) if os.path.exists(respath) else {}
            results[sid] = res
            with open(respath, "w") as f:
                json.dump(results, f, indent=1, sort_keys=True)


if __name__ == "__main__":
    main()
