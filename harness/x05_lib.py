"""X05 helpers: decorated integer crystals (spec/SymmetryClass.tla) -> real PhonopyAtoms, integer supercells,
projection of a real Symmetry object to the event record judged by spec/SymmetryClassTrace.tla."""
from __future__ import annotations

import itertools

import numpy as np

from harness import xtal

SYMBOL_OF = {1: "Na", 2: "Cl", 3: "Si", 4: "O"}


def imat(M):
    return [[int(x) for x in r] for r in np.array(M)]


def ivec(v):
    return [int(x) for x in np.array(v).ravel()]


def adj3(M):
    M = np.array(M, dtype=np.int64)
    c = np.zeros((3, 3), dtype=np.int64)
    for i in range(3):
        for j in range(3):
            m = np.delete(np.delete(M, i, 0), j, 1)
            c[i, j] = (-1) ** (i + j) * (m[0, 0] * m[1, 1] - m[0, 1] * m[1, 0])
    return c.T


def det3(M):
    M = np.array(M, dtype=np.int64)
    return int(M[0, 0] * (M[1, 1] * M[2, 2] - M[1, 2] * M[2, 1]) - M[0, 1] * (M[1, 0] * M[2, 2] - M[1, 2] * M[2, 0])
               + M[0, 2] * (M[1, 0] * M[2, 1] - M[1, 1] * M[2, 0]))


def sound_box(G, bmax=6):
    """smallest b with BoxSound(G, b) of SymmetryClass.tla (re-checked by TLC: EventWellFormed)."""
    G = np.array(G, dtype=np.int64)
    A = adj3(G)
    d = det3(G)
    for b in range(1, bmax + 1):
        if all((b + 1) ** 2 * d > int(G[j, j]) * int(A[i, i]) for i in range(3) for j in range(3)):
            return b
    return None


def supercell(cr, S):
    """Integer supercell of a decorated crystal.  New basis vectors = columns of S in the old basis
    (x' = S^-1 x).  Atoms ordered unit atom by unit atom; returns (crystal, parent index of every atom).
    Non-collinear moments are components along the basis: m' = S^-1 m, all scaled by |det S|."""
    S = np.array(S, dtype=np.int64)
    d = det3(S)
    assert d != 0
    A = adj3(S)
    sg = 1 if d > 0 else -1
    G = S.T @ np.array(cr["gram"], dtype=np.int64) @ S
    D = cr["den"] * abs(d)
    reps = {}
    r = 0
    while len(reps) < abs(d):
        r += 1
        for t in itertools.product(range(-r, r + 1), repeat=3):
            key = tuple(int(x) % abs(d) for x in A @ np.array(t))
            reps.setdefault(key, np.array(t, dtype=np.int64))
    reps = [reps[k] for k in sorted(reps)]
    atoms, parent = [], []
    for ia, at in enumerate(cr["atm"]):
        for t in reps:
            u = np.array(at["num"], dtype=np.int64) + cr["den"] * t
            up = (sg * (A @ u)) % D
            mg = at["mg"]
            if cr["mmode"] == "ncl":
                mg = ivec(sg * (A @ np.array(mg, dtype=np.int64)))
            atoms.append(dict(sp=at["sp"], num=ivec(up), mg=mg))
            parent.append(ia)
    return dict(name=cr.get("name", "?"), gram=imat(G), den=int(D), mmode=cr["mmode"], atm=atoms), parent


def permute(cr, order, labels=None):
    out = dict(cr)
    out["atm"] = [cr["atm"][i] for i in order]
    if labels is None:
        return out
    return out, [labels[i] for i in order]


def s2p_from_labels(labels):
    """s2p_map with the first atom of every class as its primitive atom (as phonopy's Supercell/Primitive do)."""
    first = {}
    for i, l in enumerate(labels):
        first.setdefault(l, i)
    return [first[l] for l in labels]


def realise(cr, nprng, a=1.7, noise=0.0):
    from phonopy.structure.atoms import PhonopyAtoms

    L = xtal.lattice_from_gram(np.array(cr["gram"], dtype=float), a=a, rng=nprng)
    pos = np.array([at["num"] for at in cr["atm"]], dtype=float) / cr["den"]
    if noise > 0:
        pos = pos + (nprng.uniform(-1, 1, size=pos.shape) * noise / np.sqrt(3.0)) @ np.linalg.inv(L)
    mag = None
    if cr["mmode"] == "col":
        mag = [float(at["mg"][0]) for at in cr["atm"]]
    elif cr["mmode"] == "ncl":
        mag = (np.array([at["mg"] for at in cr["atm"]], dtype=float) @ L) / a
    cell = PhonopyAtoms(symbols=[SYMBOL_OF[at["sp"]] for at in cr["atm"]], scaled_positions=pos, cell=L,
                        magnetic_moments=mag)
    return cell, L


def project(symobj, cr, L, symprec, is_symmetry=True):
    """Everything a Symmetry object reports, as integers (the event of SymmetryClassTrace.tla)."""
    from phonopy.structure.symmetry import get_lattice_vector_equivalence

    D = cr["den"]
    ops = symobj.symmetry_operations
    rots = np.array(ops["rotations"])
    tr = np.array(ops["translations"], dtype=float) * D
    trn = np.rint(tr)
    resid = float(np.abs(tr - trn).max()) / D if tr.size else 0.0
    lmax = float(np.sqrt((L ** 2).sum(axis=1)).max())
    ds = symobj.dataset
    trev = [1 if cr["mmode"] == "none" else 0] * len(rots)  # 0: not reported
    if ds is not None and getattr(ds, "time_reversals", None) is not None:
        trev = [-1 if bool(x) else 1 for x in ds.time_reversals]
    if not is_symmetry:  # identity / pure translations: no time reversal involved
        trev = [1] * len(rots)
    n = len(cr["atm"])
    return dict(
        rots=[imat(r) for r in rots], trn=[ivec(t) for t in trn], trev=trev,
        ptg=[imat(r) for r in symobj.pointgroup_operations],
        rcp=[imat(r) for r in symobj.reciprocal_operations],
        mapat=ivec(list(symobj.get_map_atoms())), indep=ivec(symobj.get_independent_atoms()),
        mapop=ivec(symobj.get_map_operations()),
        prm=[ivec(p) for p in symobj.atomic_permutations],
        site=[[imat(r) for r in symobj.get_site_symmetry(i)] for i in range(n)],
        lveq=[bool(x) for x in get_lattice_vector_equivalence(symobj.pointgroup_operations)],
        pgsym=str(symobj.pointgroup_symbol),
        exact=bool(resid * lmax <= 2 * symprec + 1e-9),
    )


def project_cell(cell, cr, L, S, a):
    """A real cell built by phonopy from the realisation (lattice rows L, scale a) of the decorated crystal cr with the
    integer matrix S (new basis vectors = columns of S) -> decorated integer crystal in that cell's own coordinates.
    Returns (crystal, residual) or (None, residual) when a position is not on the grid."""
    S = np.array(S, dtype=np.int64)
    d = abs(det3(S))
    G = S.T @ np.array(cr["gram"], dtype=np.int64) @ S
    D = cr["den"] * d
    Lc = np.array(cell.cell, dtype=float)
    if not np.allclose(Lc, S.T @ L, atol=1e-9):
        return None, float(np.abs(Lc - S.T @ L).max())
    x = np.array(cell.scaled_positions, dtype=float) * D
    u = np.rint(x)
    resid = float(np.abs(x - u).max()) / D
    if resid * float(np.sqrt((Lc ** 2).sum(axis=1)).max()) > 1e-3:
        return None, resid
    sp_of = {v: k for k, v in SYMBOL_OF.items()}
    mags = cell.magnetic_moments
    atoms = []
    for i, sym in enumerate(cell.symbols):
        if cr["mmode"] == "none":
            mg = [0, 0, 0]
        elif cr["mmode"] == "col":
            mg = [int(round(float(mags[i]))), 0, 0]
        else:
            m = (np.array(mags[i], dtype=float) * a) @ np.linalg.inv(Lc) * d
            mr = np.rint(m)
            if np.abs(m - mr).max() > 1e-6:
                return None, float(np.abs(m - mr).max())
            mg = ivec(mr)
        atoms.append(dict(sp=sp_of[sym], num=ivec(u[i].astype(np.int64) % D), mg=mg))
    return dict(name=cr.get("name", "?"), gram=imat(G), den=int(D), mmode=cr["mmode"], atm=atoms), resid
