"""X08 driver: real ElectronFreeEnergy / get_free_energy_at_T runs on TLC-enumerated cases, projected to events.

The named real-valued primitives of spec/ElectronFE.tla (exp, ln) are interpreted HERE, independently of phonopy:
`fermi`, `ent`.  Everything that is exact (levels, degeneracies, counts, ground states) comes from TLC and is
re-derived by TLC in ElectronFETrace.tla.
"""
from __future__ import annotations

import math
from fractions import Fraction

import numpy as np

CAP = 10 ** 9
T0_KT = 1e-10          # the class replaces T < 1e-10 K by kT = 1e-10 eV (its T -> 0 surrogate)


def milli(err, tol):
    if not math.isfinite(err):
        return CAP
    return int(min(CAP, math.ceil(abs(err) / tol * 1000.0)))


def smilli(err, tol):
    if not math.isfinite(err):
        return CAP
    v = err / tol * 1000.0
    return int(max(-CAP, min(CAP, math.ceil(v) if v > 0 else math.floor(v))))


def fermi(x):
    """1 / (1 + exp(x)), no clamp."""
    if x >= 0:
        t = math.exp(-x) if x < 745 else 0.0
        return t / (1.0 + t)
    return 1.0 / (1.0 + math.exp(x))


def ent(x):
    """-(f ln f + (1 - f) ln(1 - f)) at f = fermi(x):  ln(1 + e^-|x|) + |x| e^-|x| / (1 + e^-|x|)."""
    a = abs(x)
    if a > 700:
        return 0.0
    t = math.exp(-a)
    return math.log1p(t) + a * t / (1.0 + t)


class Sys:
    """A system of the specification realised as arrays for the class."""

    def __init__(self, sy, u):
        self.sy = sy
        self.u = u
        self.e = np.array(sy["e"], dtype=float) * u          # (spin, k, band)
        self.w = np.array(sy["w"], dtype=int)
        self.ns, self.nk, self.nb = self.e.shape
        self.g = 2 if self.ns == 1 else 1
        self.W = int(self.w.sum())
        self.emaxabs = float(np.abs(np.array(sy["e"])).max())
        self.states = [(float(self.e[s, k, b]), self.g * int(self.w[k]) / self.W)
                       for s in range(self.ns) for k in range(self.nk) for b in range(self.nb)]
        self.dtot = self.g * self.ns * self.nb
        lev = {}
        for e, d in self.states:
            lev[e] = lev.get(e, 0.0) + d
        self.dmaxlevel = max(lev.values())
        self.lev = dict(sorted(lev.items()))

    def count(self, mu, kT):
        return math.fsum(d * fermi((e - mu) / kT) for e, d in self.states)

    def energy(self, mu, kT):
        return math.fsum(d * e * fermi((e - mu) / kT) for e, d in self.states)

    def ts(self, mu, kT):
        return kT * math.fsum(d * ent((e - mu) / kT) for e, d in self.states)

    def dndmu(self, mu, kT):
        return math.fsum(d * fermi((e - mu) / kT) * fermi(-(e - mu) / kT) for e, d in self.states) / kT

    def xmax(self, mu, kT):
        return max(abs(e - mu) for e, _ in self.states) / kT

    def inband(self, n, kT):
        return self.count(float(self.e.min()), kT) <= n <= self.count(float(self.e.max()), kT)

    # tolerances -----------------------------------------------------------------------------------------------
    def tol_e(self):
        return 1e-8 * self.u * (1.0 + self.emaxabs)

    def tol_n0(self):
        """T = 0: with kT = 1e-10 eV an occupation can only be resolved to ulp(mu) / (4 kT)."""
        return 1e-9 + 8.0 * self.dmaxlevel * np.spacing(self.u * max(1.0, self.emaxabs)) / T0_KT

    def tol_e0(self):
        return 1e-9 + self.u * (1.0 + self.emaxabs) * self.tol_n0()


def two_level_mu(S, n, kT):
    """Closed form of the conserving mu for a spectrum of exactly two levels e1 < e2 with weights D1, D2:
    with t = exp((e1 - mu)/kT), q = exp((e2 - e1)/kT):  N q t^2 + [N (1 + q) - D1 q - D2] t + (N - D1 - D2) = 0."""
    if len(S.lev) != 2:
        return None
    (e1, d1), (e2, d2) = S.lev.items()
    x = (e2 - e1) / kT
    if x > 300.0:
        # level 2 empty or level 1 full to 1e-130: one partially filled level decides
        if n < d1:
            f = n / d1
            return e1 + kT * math.log(f / (1.0 - f))
        if n > d1:
            f = (n - d1) / d2
            return e2 + kT * math.log(f / (1.0 - f))
        return 0.5 * (e1 + e2) + 0.5 * kT * math.log(d1 / d2)
    q = math.exp(x)
    a, b, c = n * q, n * (1.0 + q) - d1 * q - d2, n - d1 - d2
    disc = math.sqrt(b * b - 4.0 * a * c)
    t = (-2.0 * c) / (b + disc) if b > 0 else (-b + disc) / (2.0 * a)
    return e1 - kT * math.log(t)


def run_class(S, n, T):
    """One real run; returns dict(mu, en, ts, fe, f) or raises."""
    from phonopy.qha.electron import ElectronFreeEnergy

    efe = ElectronFreeEnergy(S.e.copy(), S.w.copy(), n)
    efe.run(T)
    return dict(mu=float(efe.mu), en=float(efe.energy), ts=float(efe.entropy), fe=float(efe.free_energy), obj=efe)


def frac(r):
    return Fraction(int(r[0]), int(r[1]))


def pt_event(eid, row, u, Kb):
    """A rational thermodynamic point of TLC replayed on the class."""
    _, cse, xN, xE, occ, _inb = row[:6]
    S = Sys(cse["sy"], u)
    y, z = cse["y"], frac(cse["z"])
    kT = u / math.log(y)
    T = kT / Kb
    N = frac(xN)
    r = run_class(S, float(N), T)
    mu_x = u * math.log(z) / math.log(y)
    e_x = float(frac(xE)) * u
    fx = np.array([[[float(frac(occ[s][k][b])) for b in range(S.nb)] for k in range(S.nk)] for s in range(S.ns)])
    ts_x = kT * math.fsum(d * (-(f * math.log(f) + (1 - f) * math.log(1 - f)))
                          for (e, d), f in zip(S.states, fx.reshape(-1)))
    fgot = np.array(r["obj"]._f, dtype=float).swapaxes(0, 1)          # stored as (k, spin, band)
    dn = S.dndmu(mu_x, kT)
    cons = S.count(r["mu"], kT) - float(N)
    dv = [milli(cons, 1e-9),
          milli(r["en"] - e_x, S.tol_e()),
          milli(r["mu"] - mu_x, 1e-9 / dn + 1e-12),
          milli(r["ts"] - ts_x, 1e-8 * kT * (1.0 + S.xmax(mu_x, kT))),
          milli(r["fe"] - (r["en"] - r["ts"]), 1e-12 * (1.0 + abs(r["en"]))),
          milli(float(np.abs(fgot - fx).max()) if fgot.shape == fx.shape else float("inf"), 1e-8)]
    fq = np.rint(np.clip(fgot, -1.0, 2.0) * 1e7).astype(int).tolist() if fgot.shape == fx.shape else \
        [[[-1] * S.nb] * S.nk] * S.ns
    raw = dict(T=T, N=float(N), u=u, mu=r["mu"], mu_expected=mu_x, energy=r["en"], energy_expected=e_x,
               TS=r["ts"], TS_expected=ts_x, count_error_at_mu=cons)
    return dict(xid=eid, xc=cse, xN=list(xN), xE=list(xE), dv=dv, fq=fq), raw


def series(S, n, grid, Kb, E0):
    """get_free_energy_at_T on the grid, the class at every temperature, finite differences."""
    from phonopy.qha.electron import ElectronFreeEnergy, get_free_energy_at_T

    temps, fes = get_free_energy_at_T(float(grid[0]), float(grid[1]), float(grid[2]), S.e.copy(), S.w.copy(), n)
    temps = [float(t) for t in temps]
    efe = ElectronFreeEnergy(S.e.copy(), S.w.copy(), n)
    rows, raws = [], []
    prevF = None
    out = []
    for i, T in enumerate(temps):
        efe.run(T)
        mu, en, ts, fe = float(efe.mu), float(efe.energy), float(efe.entropy), float(efe.free_energy)
        zero = T < 1e-10
        kT = T0_KT if zero else T * Kb
        inb = S.inband(n, kT)
        te = S.tol_e0() if zero else S.tol_e()
        if zero:
            cons = milli(S.count(mu, kT) - n, S.tol_n0())
            den = milli(en - E0, S.tol_e0())
            dts = milli(ts, 1e-8)
            der = 0
        else:
            cons = milli(S.count(mu, kT) - n, 1e-9)
            den = milli(en - S.energy(mu, kT), 1e-10 * S.u * (1.0 + S.emaxabs) + 1e-13)
            dts = milli(ts - S.ts(mu, kT), 1e-9 * kT * S.dtot)
            h = max(1.0, 0.002 * T)
            efe.run(T + h)
            fp = float(efe.free_energy)
            efe.run(T - h)
            fm = float(efe.free_energy)
            s_ = ts / T
            der = milli((fp - fm) / (2 * h) + s_, 2e-7 + 1e-5 * abs(s_))
        mu2 = -1
        mx = None if zero else two_level_mu(S, n, kT)
        if mx is not None:
            dn = S.dndmu(mx, kT)
            mu2 = milli(mu - mx, 2e-9 / dn + 1e-12) if dn > 1e-6 else 0
        out.append(dict(T=T, mu=mu, en=en, ts=ts, fe=fe, inb=inb, tol=te))
        rows.append([bool(inb), cons, den, dts, milli(fe - (en - ts), 1e-12 * (1.0 + abs(en))),
                     milli(float(fes[i]) - fe, 1e-12 * (1.0 + abs(fe))),
                     int(max(-CAP, min(CAP, round(ts / 1e-12)))),
                     smilli(fe - E0, te), smilli(E0 - en, te), der, 0, mu2])
    for i in range(len(out) - 1):
        rows[i][10] = smilli(out[i + 1]["fe"] - out[i]["fe"], out[i]["tol"] + out[i + 1]["tol"])
    return temps, rows, out


def sr_event(eid, gs, u, grid, Kb):
    _, cse, e0, homo, lumo, _tr = gs[:6]
    S = Sys(cse["sy"], u)
    n = float(frac(cse["nw"]) / S.W)
    E0 = float(frac(e0)) * u
    temps, rows, out = series(S, n, grid, Kb, E0)
    muq = int(round(out[0]["mu"] / u * 1e6)) if grid[0] == 0 else 0
    ev = dict(xid=eid, xs=cse["sy"], xnw=list(cse["nw"]), xg=list(grid), xts=[int(round(t * 1000)) for t in temps],
              xE0=list(e0), muq=muq, rows=rows)
    raw = dict(u=u, N=n, grid=list(grid), ground_energy=E0, homo=homo, lumo=lumo,
               rows=[{k: v for k, v in o.items()} for o in out])
    return ev, raw


def iv_event(eid, gs, tr, u, T, Kb):
    _, cse, _e0, _homo, _lumo, _tr = gs[:6]
    S1 = Sys(cse["sy"], u)
    S2 = Sys(tr["sy"], u)
    n = float(frac(cse["nw"]) / S1.W)
    zero = T < 1e-10
    kT = T0_KT if zero else T * Kb
    r1 = run_class(S1, n, float(T))
    r2 = run_class(S2, n, float(T))
    d = tr["d"] * u
    inb = S1.inband(n, kT) and S2.inband(n, kT)
    dn = S1.dndmu(r1["mu"], kT)
    big = max(S1.emaxabs, S2.emaxabs)
    if zero:
        tn = 2 * max(S1.tol_n0(), S2.tol_n0())
        tol_e = 2 * max(S1.tol_e0(), S2.tol_e0())
        tol_mu = 1e-6 * u if not _full(cse, S1) else float("inf")
        tol_ts = 1e-8
    else:
        tol_e = 2e-8 * u * (1.0 + big)
        tol_mu = 2e-9 / dn + 1e-12 if dn > 1e-6 else float("inf")
        tol_ts = 2e-8 * kT * (1.0 + S1.xmax(r1["mu"], kT))
    dv = [0 if tol_mu == float("inf") else milli(r2["mu"] - r1["mu"] - d, tol_mu),
          milli(r2["en"] - r1["en"] - n * d, tol_e), milli(r2["ts"] - r1["ts"], tol_ts)]
    ev = dict(xid=eid, xs=cse["sy"], xnw=list(cse["nw"]), xt=tr, xT=int(T), inb=bool(inb), dv=dv)
    raw = dict(u=u, N=n, T=T, base={k: r1[k] for k in ("mu", "en", "ts")}, other={k: r2[k] for k in ("mu", "en", "ts")})
    return ev, raw


def _full(cse, S):
    """insulator-like filling: N W is a cumulative degeneracy (mu is then not unique at T = 0)."""
    nw = frac(cse["nw"])
    levels = {}
    for s in range(S.ns):
        for k in range(S.nk):
            for b in range(S.nb):
                x = cse["sy"]["e"][s][k][b]
                levels[x] = levels.get(x, 0) + S.g * int(S.w[k])
    c = 0
    for x in sorted(levels):
        c += levels[x]
        if c == nw:
            return True
    return False


class _Vxml:
    """What phonopy-vasp-efe reads from a parsed vasprun.xml (VASP: fractional k-weights summing to 1)."""

    def __init__(self, S, n, esig0, vol):
        self.k_weights = S.w.astype(float) / S.W
        self.eigenvalues = np.stack([S.e, np.ones_like(S.e)], axis=-1)      # (spin, k, band, [eigenvalue, occupation])
        self.NELECT = n
        self.energies = np.array([[esig0 + 0.3, esig0 + 0.2, esig0 + 0.1], [esig0 - 0.01, esig0, esig0 + 0.01]])
        self.volume = [vol * 1.1, vol]


def sc_event(eid, gs_pair, u, grid, Kb):
    """phonopy-vasp-efe's table builder on two 'volumes' (two systems), vasprun.xml parsing replaced by a stand-in.
    Requirement (the script's own documentation): row(T, V) = energy(sigma->0)(V) - F_el(T=0, V) + F_el(T, V)."""
    import argparse

    import phonopy.scripts.phonopy_vasp_efe as scr
    from phonopy.qha.electron import ElectronFreeEnergy

    table, ref = {}, []
    for j, gs in enumerate(gs_pair):
        cse = gs[1]
        S = Sys(cse["sy"], u)
        n = float(frac(cse["nw"]) / S.W)
        esig0 = -3.25 - 0.5 * j
        vol = 20.0 + 2.5 * j
        table["vasprun-%d.xml" % j] = _Vxml(S, n, esig0, vol)
        ref.append((S, n, esig0, vol))
    orig = scr.parse_vasprunxml
    scr.parse_vasprunxml = lambda fn: table[fn]
    try:
        args = argparse.Namespace(tmin=float(grid[0]), tmax=float(grid[1]), tstep=float(grid[2]), filenames=sorted(table))
        lines_fe, lines_ev = scr.get_fe_ev_lines(args)
    finally:
        scr.parse_vasprunxml = orig
    body = [[float(x) for x in ln.split()] for ln in lines_fe if not ln.lstrip().startswith("#")]
    head = [float(x) for x in lines_fe[0].split(":")[1].split()]
    evb = [[float(x) for x in ln.split()] for ln in lines_ev if not ln.lstrip().startswith("#")]
    temps = [r[0] for r in body]
    devs = []
    for r in body:
        row = []
        for j, (S, n, esig0, vol) in enumerate(ref):
            efe = ElectronFreeEnergy(S.e.copy(), S.w.copy(), n)
            efe.run(0.0)
            f0 = float(efe.free_energy)
            efe.run(r[0])
            want = esig0 - f0 + float(efe.free_energy)
            row.append(milli(r[1 + j] - want, 5e-9 + 2 * S.tol_e0()) if len(r) == 1 + len(ref) else CAP)
        devs.append(row)
    okv = len(head) == len(ref) and len(evb) == len(ref)
    dvol = max([milli(head[j] - ref[j][3], 1e-7) for j in range(len(ref))] +
               [max(milli(evb[j][0] - ref[j][3], 1e-7), milli(evb[j][1] - ref[j][2], 1e-7)) for j in range(len(ref))]) if okv else CAP
    ev = dict(xid=eid, xg=list(grid), xts=[int(round(t * 1000)) for t in temps], rows=devs, dvol=dvol)
    raw = dict(u=u, grid=list(grid), cases=[g[1] for g in gs_pair], fe_v_dat=lines_fe, e_v_dat=lines_ev)
    return ev, raw
