"""C13 - extraction of the OpenMP race model from /repo/c (regenerated on every run).

clang builds a typed AST of every C source (and of the nanobind glue) with
`-fopenmp`; this module walks the AST of every `#pragma omp parallel for` site
with a small *concrete-index / abstract-data* interpreter:

  * integers (loop counters, sizes, index maps) are computed concretely from a
    small scenario (the shapes and index maps the Python layer produces);
    floating data is the single abstract value UNK;
  * data-dependent branches are executed on both sides (writes joined);
  * every load/store of a location that exists before the parallel loop starts
    (variables of the enclosing function, arrays passed in, memory allocated
    before the loop, file-scope tables) is logged as an access event of the
    iteration that performs it; variables declared inside the loop body, callee
    frames and memory allocated inside an iteration are thread-private by
    construction and are not logged;
  * the sharing class of each logged location follows from the pragma text
    (private / firstprivate lists, the implicitly private loop variable;
    everything else is shared).

Nothing is decided here: the access lists go to spec/KernelsOMP.tla and TLC
explores the interleavings (see harness/props/c13.py).
"""
from __future__ import annotations

import json
import os
import re
import subprocess

VERIF = os.path.dirname(os.path.dirname(os.path.abspath(__file__)))
STUBS = os.path.join(VERIF, "harness", "c13_stubs")

C_FILES = ["phonopy.c", "dynmat.c", "derivative_dynmat.c", "rgrid.c", "tetrahedron_method.c"]
GLUE = "_phonopy.cpp"


class ModelError(Exception):
    """The site cannot be modelled (machinery failure, never a verdict)."""


# --------------------------------------------------------------------------
# AST loading
# --------------------------------------------------------------------------
def clang_ast(path, cxx=False):
    cdir = os.path.dirname(path)
    if cxx:
        cmd = ["clang++", "-std=c++17", "-nostdinc++"]
    else:
        cmd = ["clang", "-std=c99"]
    cmd += ["-fopenmp", "-fsyntax-only", "-nostdinc", "-I" + STUBS, "-I" + cdir,
            "-DTHM_EPSILON=1e-10", "-Xclang", "-ast-dump=json", path]
    p = subprocess.run(cmd, stdout=subprocess.PIPE, stderr=subprocess.PIPE)
    if p.returncode != 0:
        raise ModelError("clang cannot parse %s:\n%s" % (path, p.stderr.decode()[-2000:]))
    return json.loads(p.stdout)


def _walk(n):
    if isinstance(n, dict):
        yield n
        for c in n.get("inner", []) or []:
            yield from _walk(c)


def _line_of(n, default=None):
    """Best-effort source line of a node (clang omits unchanged fields)."""
    for key in ("loc",):
        loc = n.get(key) or {}
        if "line" in loc:
            return loc["line"]
        if "expansionLoc" in loc and "line" in loc["expansionLoc"]:
            return loc["expansionLoc"]["line"]
    rng = n.get("range") or {}
    b = rng.get("begin") or {}
    if "line" in b:
        return b["line"]
    if "expansionLoc" in b and "line" in b["expansionLoc"]:
        return b["expansionLoc"]["line"]
    return default


class Program:
    """All translation units of /repo/c."""

    def __init__(self, repo):
        self.repo = repo
        self.cdir = os.path.join(repo, "c")
        self.tus = {}
        self.funcs = {}  # name -> (file, FunctionDecl with body)
        self.globals = {}  # decl id -> VarDecl (file scope)
        self.src = {}
        for f in C_FILES + [GLUE]:
            path = os.path.join(self.cdir, f)
            with open(path) as fh:
                self.src[f] = fh.read().split("\n")
            tu = clang_ast(path, cxx=f.endswith(".cpp"))
            self.tus[f] = tu
            for d in tu.get("inner", []):
                self._collect(f, d)

    def _collect(self, f, d):
        k = d.get("kind")
        if k == "FunctionDecl":
            body = [c for c in d.get("inner", []) if c.get("kind") == "CompoundStmt"]
            if body and not d.get("isImplicit"):
                # a static function of another file with the same name would clash
                key = d["name"]
                if key in self.funcs and self.funcs[key][0] != f:
                    key = f + ":" + d["name"]
                self.funcs[key] = (f, d)
                self.funcs.setdefault(f + ":" + d["name"], (f, d))
        elif k == "VarDecl":
            self.globals[d["id"]] = (f, d)
        elif k in ("LinkageSpecDecl", "NamespaceDecl"):
            for c in d.get("inner", []):
                self._collect(f, c)

    def lookup(self, name, file=None):
        if file and (file + ":" + name) in self.funcs:
            return self.funcs[file + ":" + name]
        return self.funcs.get(name)

    # ---- pragma sites ----------------------------------------------------
    def sites(self):
        """All `omp parallel for` directives: (file, function, ordinal, node, line)."""
        out = []
        seen = set()
        for key, (f, fd) in sorted(self.funcs.items()):
            if id(fd) in seen:
                continue
            seen.add(id(fd))
            k = 0
            for n in _walk(fd):
                if (n.get("kind") or "").startswith("OMP") and n["kind"].endswith("Directive"):
                    out.append(dict(file=f, func=fd["name"], ordinal=k, node=n, kind=n["kind"],
                                    line=_line_of(n)))
                    k += 1
        out.sort(key=lambda s: (s["file"], s["line"] or 0))
        return out

    def pragma_text(self, file, line):
        """The pragma's text (joined continuation lines) starting at `line` (1-based)."""
        ls = self.src[file]
        i = line - 1
        # clang reports the line of '#pragma'
        while i >= 0 and "#pragma" not in ls[i]:
            i -= 1
        if i < 0:
            raise ModelError("pragma text not found at %s:%s" % (file, line))
        txt = ls[i]
        while txt.rstrip().endswith("\\"):
            i += 1
            txt = txt.rstrip()[:-1] + " " + ls[i]
        return " ".join(txt.split())


_CLAUSE = re.compile(r"([a-z_]+)\s*(\(([^()]*|\([^()]*\))*\))?")


def parse_pragma(txt):
    """'#pragma omp parallel for private(i, j) if (x)' -> dict of clauses."""
    m = re.match(r"#\s*pragma\s+omp\s+parallel\s+for\b(.*)$", txt)
    if not m:
        raise ModelError("unsupported OpenMP directive: %r" % txt)
    rest = m.group(1)
    cl = dict(private=[], firstprivate=[], shared=[], lastprivate=[], reduction=[], other=[])
    pos = 0
    rest = rest.strip()
    while pos < len(rest):
        mm = _CLAUSE.match(rest, pos)
        if not mm or mm.end() == pos:
            raise ModelError("cannot parse clauses in %r" % txt)
        name = mm.group(1)
        arg = (mm.group(2) or "")[1:-1].strip()
        if name in ("private", "firstprivate", "shared", "lastprivate"):
            cl[name] += [a.strip() for a in arg.split(",") if a.strip()]
        elif name == "reduction":
            vs = arg.split(":", 1)[1] if ":" in arg else arg
            cl["reduction"] += [a.strip() for a in vs.split(",") if a.strip()]
        elif name == "if":
            cl["if"] = arg
        elif name in ("schedule", "num_threads", "default", "proc_bind"):
            cl["other"].append(name)
        else:
            raise ModelError("unsupported OpenMP clause %r in %r" % (name, txt))
        pos = mm.end()
        while pos < len(rest) and rest[pos] in " ,":
            pos += 1
    return cl


# --------------------------------------------------------------------------
# abstract values and memory
# --------------------------------------------------------------------------
class _Unk:
    def __repr__(self):
        return "UNK"


UNK = _Unk()


class Ptr:
    __slots__ = ("block", "off")

    def __init__(self, block, off):
        self.block = block
        self.off = off

    def __eq__(self, o):
        return isinstance(o, Ptr) and o.block is self.block and o.off == self.off

    def __hash__(self):
        return hash((id(self.block), self.off))

    def __repr__(self):
        return "&%s[%s]" % (self.block.name, self.off)


class Fn:
    def __init__(self, name, file):
        self.name = name
        self.file = file

    def __eq__(self, o):
        return isinstance(o, Fn) and o.name == self.name


class Block:
    __slots__ = ("name", "cls", "nbytes", "data", "freed", "scalar", "fresh")

    def __init__(self, name, cls, nbytes=None, scalar=False):
        self.name = name
        self.cls = cls  # encl | local | heap_iter | heap_encl | input | global
        self.nbytes = nbytes
        self.data = {}
        self.freed = False
        self.scalar = scalar


RECORDED = ("encl", "heap_encl", "input", "global")

_SIZEOF = {"double": 8, "long": 8, "int64_t": 8, "unsigned long": 8, "size_t": 8, "int": 4, "char": 1,
           "float": 4, "long long": 8, "unsigned int": 4, "bool": 1, "_Bool": 1}


def _strip_q(t):
    t = re.sub(r"\b(const|volatile|restrict|__restrict|struct)\b", " ", t)
    return " ".join(t.split())


def type_info(qual):
    """(is_pointer, dims, base) of a clang type string."""
    t = _strip_q(qual)
    if "(*" in t or t.endswith("*") or "(&" in t or t.endswith("&"):
        return True, [], t
    dims = [int(x) for x in re.findall(r"\[(\d+)\]", t)]
    base = re.sub(r"\[\d*\]", "", t).strip()
    return False, dims, base


def nelems(qual):
    isp, dims, _ = type_info(qual)
    if isp:
        return 1
    n = 1
    for d in dims:
        n *= d
    return n


def elsize(qual):
    isp, _, base = type_info(qual)
    if isp:
        return 8
    return _SIZEOF.get(base, 8)


def pointee(qual):
    """Type string pointed to by a pointer type string."""
    t = _strip_q(qual)
    m = re.match(r"^(.*?)\(\*\)(.*)$", t)
    if m:
        return (m.group(1).strip() + m.group(2).strip()).strip()
    if t.endswith("*"):
        return t[:-1].strip()
    # array decayed
    m = re.match(r"^(.*?)\[\d*\](.*)$", t)
    if m:
        return (m.group(1).strip() + m.group(2)).strip()
    return t


def qtype(n):
    t = n.get("type") or {}
    return t.get("desugaredQualType") or t.get("qualType") or "int"


def is_float_type(qual):
    isp, dims, base = type_info(qual)
    return (not isp) and base in ("double", "float", "long double")


# --------------------------------------------------------------------------
# the interpreter
# --------------------------------------------------------------------------
class Frame:
    def __init__(self, fname, file, is_site_frame=False):
        self.fname = fname
        self.file = file
        self.env = {}
        self.is_site_frame = is_site_frame
        self.spec_base = 0
        self.spec_rets = []


class SiteDone(Exception):
    pass


MATH_PURE = {"sqrt", "exp", "log", "sin", "cos", "sinh", "cosh", "fabs", "pow", "floor", "ceil", "expm1", "log1p",
             "tanh", "atan2", "round",
             "printf", "fprintf", "omp_get_max_threads", "omp_get_thread_num", "omp_get_num_threads"}

MAX_STEPS = 20_000_000


class Interp:
    def __init__(self, prog, target=None):
        self.prog = prog
        self.target = target  # directive node to model (dict) or None
        self.frames = []
        self.journals = []
        self.spec = 0
        self.in_iter = False
        self.cur_events = None
        self.iterations = []  # list of (loopvalue, events)
        self.encl_class = {}  # block id -> sharing class within the site
        self.oob = []
        self.unmodelled = []
        self.steps = 0
        self.globals = {}
        self.site_info = None
        self.site_frame = None
        self.blocks_by_name = {}

    # ---- memory --------------------------------------------------------
    def new_block(self, name, cls, nbytes=None, scalar=False):
        k = self.blocks_by_name.get(name, 0) + 1
        self.blocks_by_name[name] = k
        if k > 1:
            name = "%s#%d" % (name, k)
        return Block(name, cls, nbytes, scalar)

    def log(self, kind, block, off, node, es):
        if block.freed:
            self.oob.append(dict(what="use-after-free", loc="%s[%s]" % (block.name, off), line=_line_of(node)))
        if off is None:
            # data-dependent index.  Memory that is thread-private by construction: nothing to log (the
            # caller forgets what the block holds).  Memory another thread can see: the access could be
            # anywhere in the block - logged on the wildcard location `name[*]` as a shared access and the
            # site is marked as not fully modelled (reported through TLC as omp:Unmodelled, never exit 2).
            if block.cls in RECORDED and self.encl_class.get(id(block), "shared") != "loopvar":
                why = "data-dependent index into %s in %s line %s" % (block.name, self.frames[-1].fname, _line_of(node))
                if why not in self.unmodelled:
                    self.unmodelled.append(why)
                if self.cur_events is not None:
                    self.cur_events.append((kind, "%s[*]" % block.name, "shared", self.spec > 0))
            return
        if off < 0 or (block.nbytes is not None and (off + 1) * es > block.nbytes):
            self.oob.append(dict(what="out-of-bounds " + ("write" if kind else "read"),
                                 loc="%s[%d]" % (block.name, off), size_bytes=block.nbytes,
                                 line=_line_of(node), func=self.frames[-1].fname))
        if self.cur_events is not None and block.cls in RECORDED:
            sc = self.encl_class.get(id(block), "shared")
            if sc == "loopvar":
                return
            self.cur_events.append((kind, block.name if block.scalar else "%s[%d]" % (block.name, off), sc,
                                    self.spec > 0))

    def load(self, block, off, node, es=8):
        self.log(0, block, off, node, es)
        if off is None:
            return UNK
        return block.data.get(off, UNK)

    def store(self, block, off, val, node, es=8):
        self.log(1, block, off, node, es)
        if off is None:
            # any cell of the block may have been overwritten
            for o in list(block.data):
                self.store_raw(block, o, UNK)
            return
        self.store_raw(block, off, val)

    def store_raw(self, block, off, val):
        if self.journals:
            self.journals[-1].append((block, off, block.data.get(off, UNK)))
        block.data[off] = val

    # ---- speculation -----------------------------------------------------
    def speculate(self, thunks):
        outs = []
        for th in thunks:
            self.journals.append([])
            self.spec += 1
            try:
                th()
            finally:
                self.spec -= 1
                j = self.journals.pop()
            olds = {}
            for (b, off, old) in j:
                olds.setdefault((id(b), off), (b, old))
            finals = {k: v[0].data.get(k[1], UNK) for k, v in olds.items()}
            for (b, off, old) in reversed(j):
                b.data[off] = old
            outs.append((olds, finals))
        keys = {}
        for olds, _ in outs:
            for k, v in olds.items():
                keys.setdefault(k, v)
        for k, (b, old) in keys.items():
            vals = [f.get(k, old) for (_, f) in outs]
            v = vals[0]
            for w in vals[1:]:
                if not _same(v, w):
                    v = UNK
                    break
            self.store_raw(b, k[1], v)

    # ---- variables -------------------------------------------------------
    def declare(self, vd, frame):
        q = qtype(vd)
        n = nelems(q)
        isp, dims, _ = type_info(q)
        if vd.get("storageClass") == "static":
            # function-scope static: one object for all threads and calls
            if vd["id"] not in self.globals:
                self.globals[vd["id"]] = self.new_block("static " + vd.get("name", "_"), "global",
                                                        nbytes=n * elsize(q), scalar=(not dims))
                self.globals[vd["id"]].fresh = True
            frame.env[vd["id"]] = self.globals[vd["id"]]
            return self.globals[vd["id"]]
        if frame.is_site_frame and not self.in_iter:
            cls = "encl"
        else:
            cls = "local"
        vla = ("[" in _strip_q(q)) and not isp and len(dims) != _strip_q(q).count("[")
        b = self.new_block(vd.get("name", "_"), cls, nbytes=None if vla else n * elsize(q),
                           scalar=(not dims) and not vla)
        frame.env[vd["id"]] = b
        return b

    def var_block(self, ref):
        did = ref["id"]
        for fr in (self.frames[-1],):
            if did in fr.env:
                return fr.env[did]
        # captured variable of the site frame (we execute the captured body inline)
        if self.site_frame is not None and did in self.site_frame.env:
            return self.site_frame.env[did]
        if did in self.globals:
            return self.globals[did]
        if did in self.prog.globals:
            f, vd = self.prog.globals[did]
            q = qtype(vd)
            b = self.new_block(vd["name"], "global", nbytes=nelems(q) * elsize(q), scalar=not type_info(q)[1])
            self.globals[did] = b
            init = [c for c in vd.get("inner", []) if c.get("kind") == "InitListExpr"]
            if init:
                self._init_list(b, 0, init[0], q, None)
            return b
        raise ModelError("unbound variable %s in %s" % (ref.get("name"), self.frames[-1].fname))

    def _init_list(self, block, off, node, q, frame):
        isp, dims, base = type_info(q)
        if not dims:
            v = self.eval(node)
            self.store_raw(block, off, v)
            return
        sub = 1
        for d in dims[1:]:
            sub *= d
        subq = base + "".join("[%d]" % d for d in dims[1:])
        items = [c for c in node.get("inner", [])] if node.get("kind") == "InitListExpr" else []
        for i in range(dims[0]):
            if i < len(items):
                self._init_list(block, off + i * sub, items[i], subq, frame)
            else:
                for k in range(sub):
                    self.store_raw(block, off + i * sub + k, 0)

    # ---- expressions -----------------------------------------------------
    def tick(self, n):
        self.steps += 1
        if self.steps > MAX_STEPS:
            raise ModelError("site too large to model (step budget) in %s" % self.frames[-1].fname)

    def lvalue(self, n):
        self.tick(n)
        k = n["kind"]
        if k == "DeclRefExpr":
            return self.var_block(n["referencedDecl"]), 0
        if k == "ParenExpr":
            return self.lvalue(n["inner"][0])
        if k == "ArraySubscriptExpr":
            base = self.eval(n["inner"][0])
            idx = self.eval(n["inner"][1])
            if not isinstance(base, Ptr):
                raise ModelError("subscript of non-pointer at line %s in %s" % (_line_of(n), self.frames[-1].fname))
            stride = nelems(qtype(n))
            if isinstance(idx, int) and base.off is not None:
                return base.block, base.off + idx * stride
            return base.block, None
        if k == "UnaryOperator" and n["opcode"] == "*":
            p = self.eval(n["inner"][0])
            if not isinstance(p, Ptr):
                raise ModelError("dereference of non-pointer at line %s" % _line_of(n))
            return p.block, p.off
        if k in ("ImplicitCastExpr", "CStyleCastExpr") and n.get("castKind") == "NoOp":
            return self.lvalue(n["inner"][0])
        raise ModelError("unsupported lvalue %s at line %s" % (k, _line_of(n)))

    def eval(self, n):
        self.tick(n)
        k = n["kind"]
        if k == "IntegerLiteral":
            return int(n["value"])
        if k == "CharacterLiteral":
            return int(n["value"])
        if k in ("FloatingLiteral", "StringLiteral"):
            return UNK
        if k in ("ParenExpr", "ConstantExpr", "ExprWithCleanups", "MaterializeTemporaryExpr",
                 "CXXFunctionalCastExpr", "CXXStaticCastExpr"):
            return self.eval(n["inner"][0])
        if k in ("ImplicitCastExpr", "CStyleCastExpr"):
            ck = n.get("castKind")
            sub = n["inner"][0]
            if ck == "LValueToRValue":
                b, off = self.lvalue(sub)
                return self.load(b, off, n, elsize(qtype(n)))
            if ck == "ArrayToPointerDecay":
                b, off = self.lvalue(sub)
                return Ptr(b, off)
            if ck == "FunctionToPointerDecay":
                return self.eval(sub)
            if ck in ("IntegralToFloating",):
                self.eval(sub)
                return UNK
            if ck in ("FloatingToIntegral", "FloatingToBoolean", "FloatingCast"):
                self.eval(sub)
                return UNK
            if ck == "NullToPointer":
                return 0
            if ck in ("PointerToBoolean", "IntegralToBoolean"):
                v = self.eval(sub)
                if isinstance(v, Ptr):
                    return 1
                if isinstance(v, int):
                    return int(v != 0)
                return UNK
            if ck == "ToVoid":
                self.eval(sub)
                return UNK
            return self.eval(sub)  # IntegralCast, NoOp, BitCast, ...
        if k == "DeclRefExpr":
            rd = n["referencedDecl"]
            if rd["kind"] == "FunctionDecl":
                return Fn(rd["name"], self.frames[-1].file)
            if rd["kind"] == "EnumConstantDecl":
                return UNK
            # array-typed or reference use without cast: address
            b = self.var_block(rd)
            return Ptr(b, 0)
        if k == "UnaryOperator":
            op = n["opcode"]
            sub = n["inner"][0]
            if op in ("++", "--"):
                b, off = self.lvalue(sub)
                es = elsize(qtype(n))
                if self.encl_class.get(id(b)) == "reduction":
                    old = b.data.get(off, UNK)
                else:
                    old = self.load(b, off, n, es)
                d = 1 if op == "++" else -1
                if isinstance(old, int):
                    new = old + d
                elif isinstance(old, Ptr):
                    new = Ptr(old.block, None if old.off is None else old.off + d * nelems(pointee(qtype(n))))
                else:
                    new = UNK
                self.store(b, off, new, n, es)
                return old if n.get("isPostfix") else new
            if op == "&":
                b, off = self.lvalue(sub)
                return Ptr(b, off)
            if op == "*":
                b, off = self.lvalue(n)
                return Ptr(b, off)  # only reached for array-typed results
            v = self.eval(sub)
            if op == "-":
                return -v if isinstance(v, int) else UNK
            if op == "+":
                return v
            if op == "!":
                if isinstance(v, Ptr):
                    return 0
                return int(not v) if isinstance(v, int) else UNK
            if op == "~":
                return ~v if isinstance(v, int) else UNK
            raise ModelError("unary %s" % op)
        if k == "BinaryOperator":
            return self.binop(n)
        if k == "CompoundAssignOperator":
            op = n["opcode"][:-1]
            lhs, rhs = n["inner"]
            r = self.eval(rhs)
            b, off = self.lvalue(lhs)
            es = elsize(qtype(lhs))
            if self.encl_class.get(id(b)) == "reduction":
                old = b.data.get(off, UNK)  # accumulation into a reduction variable: not a plain read
            else:
                old = self.load(b, off, n, es)
            new = self.arith(op, old, r, qtype(lhs), n)
            if is_float_type(qtype(lhs)):
                new = UNK
            self.store(b, off, new, n, es)
            return new
        if k == "ArraySubscriptExpr" or (k == "MemberExpr"):
            b, off = self.lvalue(n)
            return Ptr(b, off)
        if k == "CallExpr":
            return self.call(n)
        if k == "CXXMemberCallExpr":
            return self.member_call(n)
        if k == "ConditionalOperator":
            c = self.eval(n["inner"][0])
            if isinstance(c, Ptr):
                c = 1
            if isinstance(c, int):
                return self.eval(n["inner"][1] if c else n["inner"][2])
            res = []
            self.speculate([lambda: res.append(self.eval(n["inner"][1])),
                            lambda: res.append(self.eval(n["inner"][2]))])
            return res[0] if _same(res[0], res[1]) else UNK
        if k == "UnaryExprOrTypeTraitExpr":
            if n.get("name") == "sizeof":
                at = n.get("argType")
                q = (at.get("desugaredQualType") or at["qualType"]) if at else qtype(n["inner"][0])
                return nelems(q) * elsize(q)
            raise ModelError("type trait %s" % n.get("name"))
        if k == "InitListExpr":
            return UNK
        if k == "ImplicitValueInitExpr":
            return 0
        if k == "CXXBoolLiteralExpr":
            return int(bool(n.get("value")))
        if k == "CXXNullPtrLiteralExpr" or k == "GNUNullExpr":
            return 0
        raise ModelError("unsupported expression %s at line %s in %s" % (k, _line_of(n), self.frames[-1].fname))

    def arith(self, op, a, b, q, n):
        if isinstance(a, Ptr) or isinstance(b, Ptr):
            if op in ("+", "-") and isinstance(a, Ptr) and (isinstance(b, int) or b is UNK):
                st = nelems(pointee(q))
                if b is UNK or a.off is None:
                    return Ptr(a.block, None)
                return Ptr(a.block, a.off + (b if op == "+" else -b) * st)
            if op == "+" and isinstance(b, Ptr) and isinstance(a, int):
                st = nelems(pointee(q))
                return Ptr(b.block, None if b.off is None else b.off + a * st)
            if op in ("==", "!="):
                if isinstance(a, Ptr) and isinstance(b, Ptr):
                    return int((a == b) == (op == "=="))
                other = b if isinstance(a, Ptr) else a
                if other == 0:
                    return int(op == "!=")
            return UNK
        if a is UNK or b is UNK or not isinstance(a, int) or not isinstance(b, int):
            return UNK
        if op == "+":
            return a + b
        if op == "-":
            return a - b
        if op == "*":
            return a * b
        if op == "/":
            if b == 0:
                self.oob.append(dict(what="integer division by zero", line=_line_of(n)))
                return UNK
            if is_float_type(q):
                return UNK
            return int(a / b) if (a < 0) != (b < 0) and a % b else a // b
        if op == "%":
            if b == 0:
                self.oob.append(dict(what="integer modulo by zero", line=_line_of(n)))
                return UNK
            r = abs(a) % abs(b)
            return -r if a < 0 else r
        if op == "<":
            return int(a < b)
        if op == ">":
            return int(a > b)
        if op == "<=":
            return int(a <= b)
        if op == ">=":
            return int(a >= b)
        if op == "==":
            return int(a == b)
        if op == "!=":
            return int(a != b)
        if op == "&":
            return a & b
        if op == "|":
            return a | b
        if op == "^":
            return a ^ b
        if op == "<<":
            return a << b
        if op == ">>":
            return a >> b
        raise ModelError("binary operator %s" % op)

    def binop(self, n):
        op = n["opcode"]
        lhs, rhs = n["inner"]
        if op == "=":
            v = self.eval(rhs)
            b, off = self.lvalue(lhs)
            q = qtype(lhs)
            if is_float_type(q):
                v = UNK
            self.store(b, off, v, n, elsize(q))
            return v
        if op == ",":
            self.eval(lhs)
            return self.eval(rhs)
        if op in ("&&", "||"):
            a = self.eval(lhs)
            if isinstance(a, Ptr):
                a = 1
            if isinstance(a, int):
                if (op == "&&" and not a) or (op == "||" and a):
                    return int(bool(a))
                b = self.eval(rhs)
                if isinstance(b, Ptr):
                    b = 1
                return int(bool(b)) if isinstance(b, int) else UNK
            res = []
            self.speculate([lambda: res.append(self.eval(rhs)), lambda: None])
            return UNK
        a = self.eval(lhs)
        b = self.eval(rhs)
        q = qtype(lhs) if isinstance(a, Ptr) else (qtype(rhs) if isinstance(b, Ptr) else qtype(n))
        if is_float_type(qtype(lhs)) or is_float_type(qtype(rhs)):
            if not (isinstance(a, Ptr) or isinstance(b, Ptr)):
                return UNK
        return self.arith(op, a, b, q, n)

    # ---- calls -----------------------------------------------------------
    def member_call(self, n):
        """nanobind glue: X.data() / X.shape(k) on a scenario array."""
        me = n["inner"][0]
        meth = me.get("name")
        obj = me["inner"][0]
        while obj.get("kind") in ("ImplicitCastExpr", "ParenExpr"):
            obj = obj["inner"][0]
        b = self.var_block(obj["referencedDecl"])
        arr = b.data.get(0, UNK)
        if not isinstance(arr, Ptr):
            raise ModelError("glue: %s is not bound to an array" % obj["referencedDecl"].get("name"))
        if meth == "data":
            return arr
        if meth == "shape":
            k = self.eval(n["inner"][1])
            shp = getattr(arr.block, "shape", None) if False else self.shapes.get(arr.block.name)
            if shp is None or not isinstance(k, int) or k >= len(shp):
                raise ModelError("glue: shape(%s) of %s unknown" % (k, arr.block.name))
            return shp[k]
        raise ModelError("glue: unsupported ndarray method %s" % meth)

    shapes = {}

    def call(self, n):
        cal = self.eval(n["inner"][0])
        args = [self.eval(a) for a in n["inner"][1:]]
        if not isinstance(cal, Fn):
            raise ModelError("indirect call through unknown pointer at line %s" % _line_of(n))
        name = cal.name
        if name == "malloc":
            nb = args[0] if isinstance(args[0], int) else None
            b = self.new_block("heap@%s" % _line_of(n, "?"), "heap_iter" if self.in_iter else
                               ("heap_encl" if self.frames[-1].is_site_frame else "local"), nbytes=nb)
            return Ptr(b, 0)
        if name == "free":
            if isinstance(args[0], Ptr):
                if args[0].block.freed:
                    self.oob.append(dict(what="double free", loc=args[0].block.name, line=_line_of(n)))
                if self.spec == 0:
                    args[0].block.freed = True
            return UNK
        if name in MATH_PURE:
            return UNK
        ent = self.prog.lookup(name, self.frames[-1].file)
        if ent is None:
            if any(isinstance(a, Ptr) for a in args):
                raise ModelError("call to %s (no body) with pointer arguments" % name)
            return UNK
        f, fd = ent
        return self.run_function(f, fd, args)

    def run_function(self, f, fd, args, site_frame=False):
        if len(self.frames) > 40:
            raise ModelError("call depth")
        fr = Frame(fd["name"], f, is_site_frame=site_frame)
        fr.spec_base = self.spec
        params = [c for c in fd.get("inner", []) if c.get("kind") == "ParmVarDecl"]
        body = [c for c in fd.get("inner", []) if c.get("kind") == "CompoundStmt"][0]
        if len(params) != len(args):
            raise ModelError("arity mismatch calling %s" % fd["name"])
        self.frames.append(fr)
        if site_frame:
            self.site_frame = fr
        try:
            for p, a in zip(params, args):
                b = self.new_block(p.get("name", "_"), "encl" if site_frame else "local", nbytes=8, scalar=True)
                fr.env[p["id"]] = b
                b.data[0] = a
            sig = self.exec(body)
            ret = UNK
            if sig and sig[0] == "return":
                ret = sig[1]
            if fr.spec_rets:
                for r in fr.spec_rets:
                    if not _same(r, ret):
                        ret = UNK
            return ret
        finally:
            self.frames.pop()

    # ---- statements ------------------------------------------------------
    def truth(self, v):
        if isinstance(v, Ptr):
            return 1
        if isinstance(v, int):
            return int(v != 0)
        return UNK

    def exec(self, n):
        self.tick(n)
        k = n.get("kind")
        if k is None:
            return None
        if k == "CompoundStmt":
            for c in n.get("inner", []):
                sig = self.exec(c)
                if sig:
                    return sig
            return None
        if k == "DeclStmt":
            for vd in n.get("inner", []):
                if vd.get("kind") != "VarDecl":
                    continue
                b = self.declare(vd, self.frames[-1])
                if vd.get("storageClass") == "static":
                    if not getattr(b, "fresh", False):
                        continue
                    b.fresh = False
                if vd.get("init"):
                    init = vd["inner"][-1]
                    q = qtype(vd)
                    if init.get("kind") == "InitListExpr":
                        # logged as writes of every element
                        self._init_list(b, 0, init, q, self.frames[-1])
                        for off in range(nelems(q)):
                            self.log(1, b, off, n, elsize(q))
                    else:
                        v = self.eval(init)
                        if is_float_type(q):
                            v = UNK
                        self.store(b, 0, v, n, elsize(q))
            return None
        if k == "NullStmt":
            return None
        if k == "IfStmt":
            inner = n["inner"]
            c = self.truth(self.eval(inner[0]))
            then = inner[1]
            els = inner[2] if len(inner) > 2 else None
            if c is UNK:
                self.speculate([lambda: self.exec_spec(then), lambda: self.exec_spec(els) if els else None])
                return None
            if c:
                return self.exec(then)
            if els:
                return self.exec(els)
            return None
        if k == "ForStmt":
            init, _cv, cond, inc, body = n["inner"]
            if init.get("kind"):
                self.exec(init)
            while True:
                if cond.get("kind"):
                    c = self.truth(self.eval(cond))
                    if c is UNK:
                        raise ModelError("data-dependent loop bound in %s line %s (scenario incomplete)"
                                         % (self.frames[-1].fname, _line_of(n)))
                    if not c:
                        break
                sig = self.exec(body)
                if sig:
                    if sig[0] == "break":
                        break
                    if sig[0] == "return":
                        return sig
                if inc.get("kind"):
                    self.eval(inc)
            return None
        if k == "WhileStmt":
            cond, body = n["inner"][-2], n["inner"][-1]
            while True:
                c = self.truth(self.eval(cond))
                if c is UNK:
                    raise ModelError("data-dependent while loop in %s" % self.frames[-1].fname)
                if not c:
                    break
                sig = self.exec(body)
                if sig:
                    if sig[0] == "break":
                        break
                    if sig[0] == "return":
                        return sig
            return None
        if k == "SwitchStmt":
            cond = self.eval(n["inner"][0])
            body = n["inner"][-1]
            stmts = body.get("inner", [])
            if isinstance(cond, int):
                start = None
                for i, s in enumerate(stmts):
                    if s.get("kind") == "CaseStmt" and self.eval(s["inner"][0]) == cond:
                        start = i
                        break
                if start is None:
                    for i, s in enumerate(stmts):
                        if s.get("kind") == "DefaultStmt":
                            start = i
                if start is None:
                    return None
                for s in stmts[start:]:
                    sig = self.exec(s)
                    if sig:
                        if sig[0] == "break":
                            return None
                        return sig
                return None
            # unknown selector: every entry point is possible
            thunks = []
            for i, s in enumerate(stmts):
                if s.get("kind") in ("CaseStmt", "DefaultStmt"):
                    thunks.append(lambda i=i: self.exec_spec_seq(stmts[i:]))
            thunks.append(lambda: None)
            self.speculate(thunks)
            return None
        if k == "CaseStmt":
            return self.exec(n["inner"][-1])
        if k == "DefaultStmt":
            return self.exec(n["inner"][-1])
        if k == "BreakStmt":
            return ("break",)
        if k == "ContinueStmt":
            return ("continue",)
        if k == "ReturnStmt":
            v = self.eval(n["inner"][0]) if n.get("inner") else UNK
            return ("return", v)
        if k.startswith("OMP") and k.endswith("Directive"):
            return self.directive(n)
        if k == "CapturedStmt":
            return self.exec(n["inner"][0]["inner"][0])
        # expression statement
        self.eval(n)
        return None

    def exec_spec(self, n):
        """Execute inside a speculative branch: jumps are recorded, not taken."""
        if n is None:
            return None
        sig = self.exec(n)
        if sig and sig[0] == "return":
            self.frames[-1].spec_rets.append(sig[1])
        return None

    def exec_spec_seq(self, stmts):
        """One alternative of a switch with unknown selector: run until a jump."""
        for x in stmts:
            sig = self.exec(x)
            if sig:
                if sig[0] == "return":
                    self.frames[-1].spec_rets.append(sig[1])
                return None
        return None

    # ---- the parallel loop -----------------------------------------------
    def directive(self, n):
        loop = None
        for c in n.get("inner", []):
            if c.get("kind") == "CapturedStmt":
                loop = c["inner"][0]["inner"][0]
        if loop is None or loop.get("kind") != "ForStmt":
            raise ModelError("OpenMP directive without a canonical for loop")
        if n is not self.target:
            # nested / other region: executed by the encountering thread
            return self.exec(loop)
        if self.spec:
            raise ModelError("target directive reached under a data-dependent branch")
        fr = self.frames[-1]
        if not fr.is_site_frame:
            raise ModelError("target directive not in the entry function")
        f = fr.file
        txt = self.prog.pragma_text(f, _line_of(n))
        cl = parse_pragma(txt)
        init, _cv, cond, inc, body = loop["inner"]
        # loop variable
        if init.get("kind") == "BinaryOperator" and init["opcode"] == "=":
            lv = init["inner"][0]
            while lv.get("kind") in ("ParenExpr",):
                lv = lv["inner"][0]
            lvdecl = lv["referencedDecl"]
            lo = self.eval(init["inner"][1])
            lvblock = self.var_block(lvdecl)
        elif init.get("kind") == "DeclStmt":
            vd = init["inner"][0]
            lvblock = self.declare(vd, fr)
            lvdecl = vd
            lo = self.eval(vd["inner"][-1])
        else:
            raise ModelError("non-canonical loop init")
        if not isinstance(lo, int):
            raise ModelError("loop lower bound unknown")
        by_name = {}
        for did, b in fr.env.items():
            by_name.setdefault(b.name.split("#")[0], b)
        classes = {}
        for nm in cl["private"]:
            classes[nm] = "private"
        for nm in cl["firstprivate"]:
            classes[nm] = "firstprivate"
        for nm in cl["reduction"]:
            # private partial result per thread, combined at the end: inside the region only the
            # accumulation `x op= e` is schedule-independent; any other read sees the thread's partial value
            classes[nm] = "reduction"
        for nm in cl["lastprivate"]:
            # copied out of the thread that ran the sequentially last iteration
            classes[nm] = "firstlastprivate" if nm in cl["firstprivate"] else "lastprivate"
        for nm in cl["shared"]:
            classes[nm] = "shared"
        for nm, c in classes.items():
            if nm not in by_name:
                raise ModelError("clause variable %s not found in %s" % (nm, fr.fname))
            self.encl_class[id(by_name[nm])] = c
        self.encl_class[id(lvblock)] = "loopvar"
        # an `if (...)` clause only selects for which inputs the region runs in parallel: the region is
        # modelled as parallel (the scenario is small on purpose; the clause may well be false for it)
        par = True
        self.site_info = dict(pragma=txt, clauses={k: v for k, v in cl.items() if v},
                              loopvar=lvdecl.get("name"), parallel=bool(par))
        private_blocks = [by_name[nm] for nm, c in classes.items() if c in ("private", "lastprivate")]
        self.in_iter = True
        i = lo
        count = 0
        while True:
            self.store_raw(lvblock, 0, i)
            saved = self.cur_events
            self.cur_events = None
            c = self.truth(self.eval(cond))
            if c is UNK:
                raise ModelError("parallel loop bound unknown (scenario incomplete)")
            if not c:
                break
            for b in private_blocks:
                b.data = {}
            ev = []
            self.cur_events = ev
            sig = self.exec(body)
            self.cur_events = None
            if sig and sig[0] in ("break", "return"):
                raise ModelError("jump out of a parallel loop")
            self.iterations.append((i, ev))
            self.eval(inc)
            i2 = lvblock.data.get(0)
            if not isinstance(i2, int) or i2 == i:
                raise ModelError("non-canonical loop increment")
            i = i2
            count += 1
            if count > 256:
                raise ModelError("too many parallel iterations in the scenario")
        self.in_iter = False
        raise SiteDone()


def _same(a, b):
    if a is UNK or b is UNK:
        return a is b
    return a == b


# --------------------------------------------------------------------------
# scenarios: the small well-formed inputs each enclosing function is run with
# --------------------------------------------------------------------------
def _grid(mesh):
    out = []
    for k in range(mesh[2]):
        for j in range(mesh[1]):
            for i in range(mesh[0]):
                out += [i, j, k]
    return out


def _rel_addr(n):
    """n*3 small relative grid addresses (values in -1..1, deterministic)."""
    out = []
    for t in range(n):
        out += [(t % 3) - 1, ((t // 3) % 3) - 1, ((t // 9) % 3) - 1]
    return out


# primitive / supercell atoms of the model scenarios: MORE primitive atoms (3) than lattice points (N = 2), so that
# p2s_map = [0, 2, 4] contains an index below num_patom (row/prefix confusions between the compact row i and the
# full row p2s[i] collide with another atom's row)
NP, NS = 3, 6
_P2S = [0, 2, 4]
# images of a primitive atom are deliberately NOT consecutive in supercell order (interleaved species with a
# centring primitive matrix give such maps), and p2s is not a prefix
_S2P = [0, 4, 2, 0, 4, 2]
_S2PP = [0, 2, 1, 0, 2, 1]
_MULTI = []
for _k in range(NS * NP):
    _MULTI += [2 if _k % 3 == 0 else 1, 0]
_adr = 0
for _k in range(NS * NP):
    _MULTI[2 * _k + 1] = _adr
    _adr += _MULTI[2 * _k]
_NSVEC = _adr
_MESH = [2, 2, 1]
_NGP = 4

# scalar ints by parameter name; arrays: name -> (elsize, ncells, data or None)
SCENARIOS = {
    "ddm_get_derivative_dynmat_at_q": dict(
        ints=dict(num_patom=NP, num_satom=NS, is_nac=1, use_openmp=1),
        arrays=dict(derivative_dynmat=(8, 3 * 9 * NP * NP * 2, None), fc=(8, NS * NS * 9, None), q=(8, 3, None),
                    lattice=(8, 9, None), reclat=(8, 9, None), svecs=(8, _NSVEC * 3, None),
                    multi=(8, NS * NP * 2, _MULTI), mass=(8, NP, None), s2p_map=(8, NS, _S2P),
                    p2s_map=(8, NP, _P2S), born=(8, NP * 9, None), dielectric=(8, 9, None),
                    q_direction=(8, 3, None))),
    "dym_dynamical_matrices_with_dd_openmp_over_qpoints": dict(
        ints=dict(n_qpoints=3, num_patom=NP, num_satom=NS, num_G_points=3),
        arrays=dict(dynamical_matrices=(8, 3 * NP * NP * 9 * 2, None), qpoints=(8, 9, None),
                    fc=(8, NS * NS * 9, None), svecs=(8, _NSVEC * 3, None), multi=(8, NS * NP * 2, _MULTI),
                    positions=(8, NP * 3, None), masses=(8, NP, None), p2s_map=(8, NP, _P2S),
                    s2p_map=(8, NS, _S2P), born=(8, NP * 9, None), dielectric=(8, 9, None),
                    reciprocal_lattice=(8, 9, None), q_direction=(8, 3, None), dd_q0=(8, NP * 9 * 2, None),
                    G_list=(8, 9, None)),
        per_site={0: dict(ints=dict(use_Wang_NAC=1)), 1: dict(ints=dict(use_Wang_NAC=0))}),
    "dym_get_dynamical_matrix_at_q": dict(
        ints=dict(num_patom=NP, num_satom=NS, use_openmp=1),
        arrays=dict(dynamical_matrix=(8, NP * NP * 9 * 2, None), fc=(8, NS * NS * 9, None), q=(8, 3, None),
                    svecs=(8, _NSVEC * 3, None), multi=(8, NS * NP * 2, _MULTI), mass=(8, NP, None),
                    s2p_map=(8, NS, _S2P), p2s_map=(8, NP, _P2S), charge_sum=(8, NP * NP * 9, None))),
    "dym_transform_dynmat_to_fc": dict(
        ints=dict(num_patom=NP, num_satom=NS, use_openmp=1),
        arrays=dict(fc=(8, NS * NS * 9, None), dm=(8, (NS // NP) * NP * NP * 9 * 2, None),
                    comm_points=(8, (NS // NP) * 3, None), svecs=(8, _NSVEC * 3, None),
                    multi=(8, NS * NP * 2, _MULTI), masses=(8, NP, None), s2pp_map=(8, NS, _S2PP),
                    fc_index_map=(8, NP, _P2S))),
    "get_dd": dict(
        ints=dict(num_G=3, num_patom=NP, use_openmp=1),
        arrays=dict(dd_part=(8, NP * NP * 9 * 2, None), G_list=(8, 9, None), q_cart=(8, 3, None),
                    q_direction_cart=(8, 3, None), dielectric=(8, 9, None), pos=(8, NP * 3, None))),
    "multiply_borns": dict(
        ints=dict(num_patom=NP, use_openmp=1),
        arrays=dict(dd=(8, NP * NP * 9 * 2, None), dd_in=(8, NP * NP * 9 * 2, None), born=(8, NP * 9, None))),
    "phpy_get_tetrahedra_frequenies": dict(
        ints=dict(num_band=1, num_gp=2),
        arrays=dict(freq_tetras=(8, 2 * 1 * 96, None), mesh=(8, 3, _MESH), grid_points=(8, 2, [0, 3]),
                    grid_address=(8, _NGP * 3, _grid(_MESH)), relative_grid_address=(8, 96 * 3, _rel_addr(96)),
                    gp_ir_index=(8, _NGP, [0, 1, 2, 2]), frequencies=(8, 3 * 1, None))),
    "phpy_tetrahedron_method_dos": dict(
        ints=dict(num_freq_points=2, num_ir_gp=3, num_band=2, num_coef=2, num_gp=_NGP),
        arrays=dict(dos=(8, 3 * 2 * 2 * 2, None), mesh=(8, 3, _MESH), grid_address=(8, _NGP * 3, _grid(_MESH)),
                    relative_grid_address=(8, 96 * 3, _rel_addr(96)), grid_mapping_table=(8, _NGP, [0, 1, 2, 2]),
                    freq_points=(8, 2, None), frequencies=(8, 3 * 2, None), coef=(8, 3 * 2 * 2, None))),
    "phpy_set_smallest_vectors_dense": dict(
        ints=dict(num_pos_to=3, num_pos_from=2, num_lattice_points=3, initialize=0),
        arrays=dict(smallest_vectors=(8, 3 * 2 * 3 * 3, None), multiplicity=(8, 3 * 2 * 2, None), pos_to=(8, 9, None),
                    pos_from=(8, 6, None), lattice_points=(8, 9, None), reduced_basis=(8, 9, None),
                    trans_mat=(8, 9, None))),
    "phpy_set_smallest_vectors_sparse": dict(
        ints=dict(num_pos_to=3, num_pos_from=2, num_lattice_points=3),
        arrays=dict(smallest_vectors=(8, 3 * 2 * 27 * 3, None), multiplicity=(4, 6, None), pos_to=(8, 9, None),
                    pos_from=(8, 6, None), lattice_points=(4, 9, None), reduced_basis=(8, 9, None),
                    trans_mat=(4, 9, None))),
    "phpy_get_thermal_properties": dict(
        ints=dict(num_temp=2, num_qpoints=3, num_bands=2, classical=0),
        arrays=dict(thermal_props=(8, 6, None), temperatures=(8, 2, None), freqs=(8, 6, None),
                    weights=(8, 3, None))),
    "py_thm_integration_weight_at_omegas": dict(
        ints={},
        arrays=dict(py_integration_weights=(8, 3, None), py_omegas=(8, 3, None),
                    py_tetrahedra_omegas=(8, 96, None), function=(1, 2, [73, 0])),
        shapes=dict(py_integration_weights=[3], py_omegas=[3], py_tetrahedra_omegas=[24, 4])),
}

DEFAULT_INT = 2

# sites that scan the supercell for the images of a primitive atom / address fc rows through an index map:
# (function, ordinal) -> (kind, name of the fc block, name of the s2p-like scenario array, of the p2s-like one)
SCANS = {
    ("ddm_get_derivative_dynmat_at_q", 0): ("pair", "fc", "s2p_map", "p2s_map"),
    ("dym_get_dynamical_matrix_at_q", 0): ("pair", "fc", "s2p_map", "p2s_map"),
    ("dym_dynamical_matrices_with_dd_openmp_over_qpoints", 0): ("allpairs", "fc", "s2p_map", "p2s_map"),
    ("dym_dynamical_matrices_with_dd_openmp_over_qpoints", 1): ("allpairs", "fc", "s2p_map", "p2s_map"),
    ("dym_transform_dynmat_to_fc", 0): ("rowwrite", "fc", "s2pp_map", "fc_index_map"),
}


def scan_descriptor(site, locs):
    key = (site["func"], site["ordinal"])
    if key not in SCANS:
        return dict(kind="none", np=0, ns=0, s2p=[], p2s=[], fcloc=[])
    kind, blk, s2pn, p2sn = SCANS[key]
    arrays = SCENARIOS[site["func"]]["arrays"]
    ncell = arrays[blk][1]
    idx = {nm: i + 1 for i, nm in enumerate(locs)}
    fcloc = [idx.get("%s@[%d]" % (blk, off), 0) for off in range(ncell)]
    return dict(kind=kind, np=NP, ns=NS, s2p=list(arrays[s2pn][2]), p2s=list(arrays[p2sn][2]), fcloc=fcloc)


def run_site(prog, site):
    """Interpret the enclosing function of `site` until its parallel loop has
    been unrolled; return the access model of the site."""
    ent = prog.lookup(site["func"], site["file"])
    if ent is None:
        raise ModelError("function %s not found" % site["func"])
    f, fd = ent
    sc = SCENARIOS.get(site["func"], dict(ints={}, arrays={}))
    ints = dict(sc.get("ints", {}))
    arrays = dict(sc.get("arrays", {}))
    ps = sc.get("per_site", {}).get(site["ordinal"])
    if ps:
        ints.update(ps.get("ints", {}))
    it = Interp(prog, target=site["node"])
    it.shapes = dict(sc.get("shapes", {}))
    args = []
    for p in [c for c in fd.get("inner", []) if c.get("kind") == "ParmVarDecl"]:
        nm = p.get("name", "_")
        q = qtype(p)
        isp, dims, base = type_info(q)
        if nm in arrays or isp or dims or "ndarray" in q:
            es, ncell, data = arrays.get(nm, (8, None, None))
            b = it.new_block(nm + "@", "input", nbytes=None if ncell is None else ncell * es)
            if data is not None:
                for i, v in enumerate(data):
                    b.data[i] = v
            if nm in it.shapes:
                it.shapes[b.name] = it.shapes[nm]
            args.append(Ptr(b, 0))
        elif is_float_type(q):
            args.append(UNK)
        else:
            args.append(ints.get(nm, DEFAULT_INT))
    try:
        it.run_function(f, fd, args, site_frame=True)
    except SiteDone:
        pass
    else:
        raise ModelError("scenario of %s does not reach parallel loop #%d" % (site["func"], site["ordinal"]))
    return it


def compress(events):
    """Per-location stutter removal: R+ -> R, W+ -> W (order otherwise kept)."""
    last = {}
    out = []
    for ev in events:
        k, loc, sc = ev[0], ev[1], ev[2]
        if last.get(loc) == k:
            continue
        last[loc] = k
        out.append((k, loc, sc))
    return out


def conditional_writes(events):
    """Locations this iteration writes only under data-dependent control flow (never unconditionally)."""
    must, may = set(), set()
    for ev in events:
        if ev[0] == 1:
            (may if (len(ev) > 3 and ev[3]) else must).add(ev[1])
    return may - must


def build_models(repo):
    """-> (list of site models, list of model-level findings).

    site model: dict(name, file, func, line, pragma, clauses, parallel, iters=[...],
                     locs=[names], cls=[class per loc], acc=[[ (kind, locid) ... ] per iteration], oob=[...])
    """
    prog = Program(repo)
    sites = [s for s in prog.sites()]
    models = []
    for s in sites:
        try:
            if s["kind"] != "OMPParallelForDirective":
                raise ModelError("unsupported OpenMP construct %s at %s:%s" % (s["kind"], s["file"], s["line"]))
            it = run_site(prog, s)
        except ModelError as e:
            # a construct of the (possibly edited) source that the interpreter cannot classify must not
            # become a machinery failure: the site is handed to TLC as unmodelled (invariant SiteModelled)
            models.append(dict(name="%s:%s#%d" % (s["file"], s["func"], s["ordinal"]), file=s["file"], func=s["func"],
                               line=s["line"], pragma="(not modelled)", clauses={}, parallel=True, loopvar="?",
                               iters=[0, 1], locs=[], cls=[], acc=[[], []], oob=[], steps=0, maywr=[],
                               unmodelled=[str(e)], scan=scan_descriptor(dict(func="", ordinal=-1), [])))
            continue
        locs = {}
        cls = []
        acc = []
        maywr = []
        for n_it, (_i, ev) in enumerate(it.iterations):
            row = []
            for (k, loc, sc) in compress(ev):
                if loc not in locs:
                    locs[loc] = len(locs) + 1
                    cls.append(sc)
                row.append((k, locs[loc]))
            acc.append(row)
            for loc in conditional_writes(ev):
                maywr.append((n_it + 1, locs[loc]))
        models.append(dict(name="%s:%s#%d" % (s["file"], s["func"], s["ordinal"]), file=s["file"],
                           func=s["func"], line=s["line"], pragma=it.site_info["pragma"],
                           clauses=it.site_info["clauses"], parallel=it.site_info["parallel"],
                           loopvar=it.site_info["loopvar"], iters=[i for i, _ in it.iterations],
                           locs=list(locs), cls=cls, acc=acc, oob=it.oob, steps=it.steps, maywr=maywr,
                           unmodelled=list(it.unmodelled),
                           scan=scan_descriptor(s, list(locs))))
    return models, prog


if __name__ == "__main__":
    import sys
    import time

    t0 = time.time()
    ms, _ = build_models(sys.argv[1] if len(sys.argv) > 1 else "/repo")
    for m in ms:
        print("%-70s line %-4s iters=%d locs=%d events=%s oob=%d steps=%d" % (
            m["name"], m["line"], len(m["iters"]), len(m["locs"]), [len(a) for a in m["acc"]], len(m["oob"]),
            m["steps"]))
        print("   ", m["pragma"], "| loopvar", m["loopvar"])
        wr = {}
        for i, a in enumerate(m["acc"]):
            for k, l in a:
                if k == 1:
                    wr.setdefault(l, set()).add(i)
        multi = [m["locs"][l - 1] + ":" + m["cls"][l - 1] for l, s in wr.items() if len(s) > 1]
        print("    written by >1 iteration:", multi[:12])
        for o in m["oob"][:5]:
            print("    OOB", o)
    print("%.1fs" % (time.time() - t0))


# --------------------------------------------------------------------------
# static table of the nanobind glue: which C element type each array argument
# is cast to, and which axes shape() is asked for
# --------------------------------------------------------------------------
_CT2DTYPE = {"double": "float64", "long": "int64", "int64_t": "int64", "int": "int32", "char": "int8",
             "float": "float32"}


def _strip_casts(n):
    while n.get("kind") in ("ImplicitCastExpr", "ParenExpr", "ExprWithCleanups", "MaterializeTemporaryExpr"):
        n = n["inner"][0]
    return n


def glue_table(prog):
    """-> {exported name: dict(func=py_fn, params=[names], casts={param: ctype}, axes={param: max axis})}"""
    src = "\n".join(prog.src[GLUE])
    exported = dict(re.findall(r'm\.def\(\s*"(\w+)",\s*&(\w+)\s*\)', src))
    out = {}
    for name, fn in exported.items():
        ent = prog.lookup(fn, GLUE)
        if ent is None:
            continue  # phpy_use_openmp etc. (plain C functions)
        _f, fd = ent
        params = [c.get("name") for c in fd.get("inner", []) if c.get("kind") == "ParmVarDecl"]
        ptypes = [qtype(c) for c in fd.get("inner", []) if c.get("kind") == "ParmVarDecl"]
        casts, axes = {}, {}
        for n in _walk(fd):
            if n.get("kind") == "CStyleCastExpr":
                sub = _strip_casts(n["inner"][0])
                if sub.get("kind") == "CXXMemberCallExpr" and sub["inner"][0].get("name") == "data":
                    obj = _strip_casts(sub["inner"][0]["inner"][0])
                    pn = obj.get("referencedDecl", {}).get("name")
                    _isp, _dims, base = type_info(pointee(qtype(n)))
                    base = re.sub(r"\[\d*\]", "", base).strip()
                    casts.setdefault(pn, set()).add(_CT2DTYPE.get(base, base))
            if n.get("kind") == "CXXMemberCallExpr" and n["inner"][0].get("name") == "shape":
                obj = _strip_casts(n["inner"][0]["inner"][0])
                pn = obj.get("referencedDecl", {}).get("name")
                ax = _strip_casts(n["inner"][1])
                if ax.get("kind") == "IntegerLiteral":
                    axes[pn] = max(axes.get(pn, -1), int(ax["value"]))
        out[name] = dict(func=fn, params=params, ptypes=ptypes, casts={k: sorted(v) for k, v in casts.items()}, axes=axes)
    return out


# --------------------------------------------------------------------------
# build-divergent regions: code (other than OpenMP pragmas / omp.h / omp_* calls) that is
# compiled only with, or only without, _OPENMP.  The AST (built with -fopenmp) never sees the
# serial-only half, so these are found on the source text.
# --------------------------------------------------------------------------
_COMMENT = re.compile(r"/\*.*?\*/", re.S)


def build_divergent_sites(prog):
    """-> [dict(file, line, branch ('omp'|'serial'), func, code=[lines])]"""
    out = []
    for f, lines in prog.src.items():
        stack = []  # (is_openmp_conditional, branch, start line, code)
        func_at = _function_ranges(prog, f)
        i = 0
        while i < len(lines):
            raw = lines[i]
            t = raw.strip()
            m = re.match(r"#\s*(ifdef|ifndef|if)\b(.*)", t)
            if m:
                cond = m.group(2)
                if "_OPENMP" in cond:
                    neg = (m.group(1) == "ifndef") or ("!defined" in cond.replace(" ", "")) or ("!_OPENMP" in cond)
                    stack.append([True, "serial" if neg else "omp", i + 1, []])
                else:
                    stack.append([False, None, i + 1, []])
            elif re.match(r"#\s*else\b", t) and stack:
                top = stack[-1]
                if top[0]:
                    _emit(out, f, top, func_at)
                    stack[-1] = [True, "serial" if top[1] == "omp" else "omp", i + 1, []]
            elif re.match(r"#\s*endif\b", t) and stack:
                top = stack.pop()
                if top[0]:
                    _emit(out, f, top, func_at)
            elif any(x[0] for x in stack):
                # inside an _OPENMP conditional: what is not a pragma / include / comment is code
                if re.match(r"#\s*pragma\s+omp\b", t):
                    while lines[i].rstrip().endswith("\\"):
                        i += 1
                elif re.match(r"#\s*include\s*<omp.h>", t):
                    pass
                else:
                    for x in stack:
                        if x[0]:
                            x[3].append((i + 1, raw))
            i += 1
    return out


def _emit(out, f, top, func_at):
    text = _COMMENT.sub(" ", "\n".join(l for _n, l in top[3]))
    text = "\n".join(l.split("//")[0] for l in text.split("\n"))
    code = [l.strip() for l in text.split("\n") if l.strip()]
    if not code:
        return
    line = top[3][0][0]
    out.append(dict(file=f, line=line, branch=top[1], func=func_at(line), code=code[:12], ncode=len(code)))


def _function_ranges(prog, f):
    rng = []
    seen = set()
    for key, (ff, fd) in prog.funcs.items():
        if ff != f or id(fd) in seen:
            continue
        seen.add(id(fd))
        b = (fd.get("range") or {}).get("begin") or {}
        e = (fd.get("range") or {}).get("end") or {}
        lb = b.get("line") or (b.get("expansionLoc") or {}).get("line") or _line_of(fd)
        le = e.get("line") or (e.get("expansionLoc") or {}).get("line")
        if lb:
            rng.append((lb, le, fd["name"]))
    rng.sort()
    # clang omits `line` when unchanged: fill missing ends with the next function's start
    fixed = []
    for i, (lb, le, nm) in enumerate(rng):
        if not le or le < lb:
            le = (rng[i + 1][0] - 1) if i + 1 < len(rng) else 10 ** 9
        fixed.append((lb, le, nm))

    def at(line):
        best = None
        for lb, le, nm in fixed:
            if lb <= line <= le:
                best = nm
        if best is None:
            for lb, le, nm in fixed:
                if lb <= line:
                    best = nm
        return best

    return at


def call_graph(prog):
    g = {}
    seen = set()
    for key, (f, fd) in prog.funcs.items():
        if id(fd) in seen:
            continue
        seen.add(id(fd))
        cal = set()
        for n in _walk(fd):
            if n.get("kind") == "DeclRefExpr" and (n.get("referencedDecl") or {}).get("kind") == "FunctionDecl":
                cal.add(n["referencedDecl"]["name"])
        g.setdefault(fd["name"], set()).update(cal)
    return g


def kernels_reaching(prog, funcs):
    """exported kernel name -> True if its glue function can reach one of `funcs`."""
    g = call_graph(prog)
    gt = glue_table(prog)
    res = {}
    for kname, ent in gt.items():
        todo = [ent["func"]]
        seen = set()
        hit = set()
        while todo:
            x = todo.pop()
            if x in seen:
                continue
            seen.add(x)
            if x in funcs:
                hit.add(x)
            todo += list(g.get(x, ()))
        if hit:
            res[kname] = sorted(hit)
    # exported plain C functions (use_openmp, omp_max_threads)
    src = "\n".join(prog.src[GLUE])
    for name, fn in re.findall(r'm\.def\(\s*"(\w+)",\s*&(\w+)\s*\)', src):
        if name not in gt and fn in funcs:
            res[name] = [fn]
    return res
