"""C02: the outputs of Phonopy.run_qpoints for every combination of
with_eigenvectors x with_group_velocities x with_dynamical_matrices, on the
loaded build of the extension, projected to the run records of
spec/DynMatReport.tla.  Used in-process (first build) and as a worker
(`python -m harness.c02_report job.pkl out.pkl`, second build)."""
from __future__ import annotations

import contextlib
import hashlib
import io
import itertools
import pickle
import sys

import numpy as np

from harness import bootstrap  # noqa: F401

TOL_DM = 1e-10
TOL_EIG = 1e-10
TOL_FREQ = 1e-8
TOL_VEC = 1e-9


def _tok(table, arr):
    if arr is None:
        return 0
    h = hashlib.blake2b(np.ascontiguousarray(arr).tobytes(), digest_size=12).hexdigest() + str(np.asarray(arr).shape)
    return table.setdefault(h, len(table) + 1)


def sweep(ph, qs, exp, scale, factor):
    """-> (runs, worst, first_bad).  exp: the specification's matrices at qs (harness-evaluated series)."""
    qs = np.array(qs, dtype=float)
    dtab, ftab = {}, {}
    runs, worst, bad = [], dict(dm=0.0, eig=0.0, freq=0.0, vec=0.0), None
    e_exp = [np.linalg.eigvalsh(m) for m in exp]
    for ev, gv, dm in itertools.product((False, True), repeat=3):
        err = None
        try:
            with contextlib.redirect_stdout(io.StringIO()):
                ph.run_qpoints(qs, with_eigenvectors=ev, with_group_velocities=gv, with_dynamical_matrices=dm)
            d = ph.get_qpoints_dict()
        except Exception as e:  # the spec expects success
            err = repr(e)
            d = {}
        D = d.get("dynamical_matrices")
        F = d.get("frequencies")
        V = d.get("eigenvectors")
        GV = d.get("group_velocities")
        run = dict(ev=ev, gv=gv, dm=dm, dtok=_tok(dtab, D), ftok=_tok(ftab, F), dOK=True, fOK=False, vOK=True, gOK=True)
        if dm:
            e1 = float(np.abs(np.array(D) - np.array(exp)).max() / scale) if D is not None and err is None else np.inf
            worst["dm"] = max(worst["dm"], e1)
            run["dOK"] = bool(e1 <= TOL_DM)
        if F is not None and err is None:
            F = np.array(F)
            er = np.sign(F) * (F / factor) ** 2
            e2 = max(float(np.abs(np.sort(er[n]) - e_exp[n]).max() / scale) for n in range(len(qs)))
            fexp = [np.sign(e) * np.sqrt(np.abs(e)) * factor for e in e_exp]
            e3 = 0.0
            for n in range(len(qs)):
                big = np.abs(e_exp[n]) > 1e-4 * scale
                if big.any():
                    e3 = max(e3, float((np.abs(np.sort(F[n]) - fexp[n])[big] / np.abs(fexp[n])[big]).max()))
            worst["eig"], worst["freq"] = max(worst["eig"], e2), max(worst["freq"], e3)
            run["fOK"] = bool(e2 <= TOL_EIG and e3 <= TOL_FREQ)
        if ev:
            ok = V is not None and err is None
            e4 = np.inf
            if ok:
                V = np.array(V)
                e4 = 0.0
                for n in range(len(qs)):
                    lam = np.sign(F[n]) * (F[n] / factor) ** 2
                    e4 = max(e4, float(np.abs(V[n].conj().T @ V[n] - np.eye(V.shape[1])).max()))
                    e4 = max(e4, float(np.abs(exp[n] @ V[n] - V[n] * lam[None, :]).max() / scale))
                    if dm and D is not None:
                        e4 = max(e4, float(np.abs(np.array(D)[n] @ V[n] - V[n] * lam[None, :]).max() / scale))
            worst["vec"] = max(worst["vec"], e4)
            run["vOK"] = bool(e4 <= TOL_VEC)
        else:
            run["vOK"] = V is None
        run["gOK"] = bool((GV is not None and np.isfinite(np.array(GV)).all()) if gv else GV is None) and err is None
        if bad is None and not (run["dOK"] and run["fOK"] and run["vOK"] and run["gOK"]):
            bad = dict(run, error=err, returned_D=None if D is None else np.array(D)[:2].tolist())
        runs.append(run)
    return runs, worst, bad


def fc_variants(fc):
    """the same VALUES in every memory layout / carrier of spec/DynMatLayout.tla -> {mem: (array_like, vclass)}"""
    C = np.array(fc, dtype="double", order="C")
    n0, n1 = C.shape[:2]
    F = np.asfortranarray(C)
    H = np.ascontiguousarray(C.transpose(0, 2, 1, 3).reshape(3 * n0, 3 * n1))      # Hessian layout
    T = H.reshape(n0, 3, n1, 3).transpose(0, 2, 1, 3) * 1.0                          # owns data, permuted strides
    big = np.full((n0, 2 * n1, 3, 3), 7.25)
    big[:, ::2] = C
    V = big[:, ::2]                                                                  # strided view (column axis)
    big2 = np.full((n0 + 2,) + C.shape[1:], -3.5)
    big2[1:n0 + 1] = C
    SUB = big2[1:n0 + 1]
    f32 = C.astype(np.float32)
    ref = np.array(f32, dtype="double", order="C")
    out = {"C": (C, "exact"), "F": (F, "exact"), "T": (T, "exact"), "view": (V, "exact"), "sub": (SUB, "exact"),
           "list": (C.tolist(), "exact"), "f32": (f32, "f32"), "f32ref": (ref, "f32")}
    # the constructions really have the advertised layouts and the same values (machinery self-check)
    assert C.flags.c_contiguous and C.flags.owndata
    assert F.flags.f_contiguous and not F.flags.c_contiguous
    assert T.flags.owndata and not T.flags.c_contiguous and not T.flags.f_contiguous, T.flags
    assert not V.flags.c_contiguous and not V.flags.owndata
    assert SUB.flags.c_contiguous and not SUB.flags.owndata
    for k in ("F", "T", "view", "sub"):
        assert np.array_equal(out[k][0], C)
    return out


def layout_sweep(ph, fc, qs, exp, scale):
    """every (arg, route, mem, kernel) of spec/DynMatLayout.tla on one session -> (runs, worst, bad list)"""
    from phonopy.harmonic.dynamical_matrix import DynamicalMatrix, get_dynamical_matrix, run_dynamical_matrix_solver_c

    qs = np.array(qs, dtype="double", order="C")
    exp = np.array(exp)
    tabs = {"batch": {}, "C": {}, "Py": {}}
    runs, bad = [], []
    worst = 0.0

    def evaluate(get_dm, batch, qarg):
        """-> {kern: array of D at the q-points}"""
        out = {}
        out["batch"] = np.array(batch(qarg))
        dmo = get_dm()
        for lang in ("C", "Py"):
            mats = []
            for i in range(len(qs)):
                dmo.run(qarg[i], lang=lang)
                mats.append(np.array(dmo.dynamical_matrix))
            out[lang] = np.array(mats)
        return out

    def log(arg, route, mem, vclass, fn):
        nonlocal worst
        res, err = None, None
        try:
            with contextlib.redirect_stdout(io.StringIO()):
                res = fn()
        except Exception as e:
            err = repr(e)
        for kern in ("batch", "C", "Py"):
            run = dict(arg=arg, route=route, mem=mem, kern=kern, vclass=vclass, status="ok" if res is not None else "refused",
                       dtok=0, dOK=False)
            if res is not None:
                D = res[kern]
                run["dtok"] = _tok(tabs[kern], D)
                if vclass == "exact":
                    e1 = float(np.abs(D - exp).max() / scale) if D.shape == exp.shape else np.inf
                    worst = max(worst, e1)
                    run["dOK"] = bool(e1 <= TOL_DM)
                    if not run["dOK"]:
                        bad.append(dict(run, err=e1, returned_D_first_q=D[0].tolist() if D.ndim == 3 else None))
                else:
                    run["dOK"] = True
            elif not (mem == "f32" and arg == "fc"):
                bad.append(dict(run, error=err))
            runs.append(run)

    def batch_setter(q):
        ph.run_qpoints(q, with_dynamical_matrices=True)
        return ph.get_qpoints_dict()["dynamical_matrices"]

    variants = fc_variants(fc)
    for mem, (arr, vclass) in variants.items():
        def via_setter(arr=arr):
            ph.force_constants = arr
            return evaluate(lambda: ph.dynamical_matrix, batch_setter, qs)

        def via_ctor(arr=arr):
            dm = DynamicalMatrix(ph.supercell, ph.primitive, arr)
            return evaluate(lambda: dm, lambda q: run_dynamical_matrix_solver_c(dm, q), qs)

        def via_factory(arr=arr):
            dm = get_dynamical_matrix(arr, ph.supercell, ph.primitive)
            return evaluate(lambda: dm, lambda q: run_dynamical_matrix_solver_c(dm, q), qs)

        log("fc", "setter", mem, vclass, via_setter)
        log("fc", "ctor", mem, vclass, via_ctor)
        log("fc", "factory", mem, vclass, via_factory)
    # q-point arrays
    C = variants["C"][0]
    ph.force_constants = C
    qbig = np.full((2 * len(qs), 3), 0.123)
    qbig[::2] = qs
    for mem, qarg in (("F", np.asfortranarray(qs)), ("view", qbig[::2]), ("list", qs.tolist())):
        log("q", "call", mem, "exact", lambda qarg=qarg: evaluate(lambda: ph.dynamical_matrix, batch_setter, qarg))
    # masses (the catalogue's masses are small integers: exact in float32)
    m = np.array(ph.primitive.masses, dtype="double")
    mbig = np.full(2 * len(m), 1.5)
    mbig[::2] = m
    for mem, marg in (("view", mbig[::2]), ("list", m.tolist()), ("f32", m.astype(np.float32))):
        def via_masses(marg=marg):
            ph.masses = marg
            return evaluate(lambda: ph.dynamical_matrix, batch_setter, qs)
        log("mass", "setter", mem, "exact", via_masses)
    ph.masses = m
    ph.force_constants = C
    return runs, worst, bad


def _worker(job_path, out_path):
    from phonopy import Phonopy
    from phonopy.structure.atoms import PhonopyAtoms

    with open(job_path, "rb") as f:
        jobs = pickle.load(f)
    out = []
    for j in jobs:
        try:
            cell = PhonopyAtoms(symbols=j["symbols"], scaled_positions=j["scaled_positions"], cell=j["cell"], masses=j["masses"])
            with contextlib.redirect_stdout(io.StringIO()):
                ph = Phonopy(cell, supercell_matrix=j["S"], primitive_matrix=j["P"], store_dense_svecs=j["dense"], log_level=0)
            ph.force_constants = j["fc"]
            runs, worst, bad = sweep(ph, j["qs"], j["exp"], j["scale"], float(ph.unit_conversion_factor))
            out.append(dict(id=j["id"], runs=runs, worst=worst, bad=bad, error=None))
        except Exception as e:
            out.append(dict(id=j["id"], runs=[], worst={}, bad=None, error=repr(e)))
    with open(out_path, "wb") as f:
        pickle.dump(dict(build=bootstrap.VARIANT, results=out), f)


if __name__ == "__main__":
    _worker(sys.argv[1], sys.argv[2])
