"""Take a seeded change produced in a scratch worktree, confirm it independently, and file it.

  /venv/bin/python -m harness.seed_intake <worktree> <seed-id>

Confirms: (1) patch applies to a fresh worktree of /repo HEAD; (2) demo exits non-zero with the patch and zero
without; (3) the pinned baseline (81 stable tests) still passes with the patch.  Then copies patch.diff, demo.py,
meta.json to /verif/seeded/<seed-id>/ (meta extended with what was run) and removes both worktrees."""
import json
import os
import shutil
import subprocess
import sys

VERIF = os.path.dirname(os.path.dirname(os.path.abspath(__file__)))


def sh(cmd, **kw):
    return subprocess.run(cmd, shell=True, stdout=subprocess.PIPE, stderr=subprocess.STDOUT, text=True, **kw)


def main():
    wt, sid = sys.argv[1], sys.argv[2]
    seed = os.path.join(wt, "_seed")
    meta = json.load(open(os.path.join(seed, "meta.json")))
    fresh = "/tmp/intake_%s" % sid
    sh("git -C /repo worktree remove --force %s" % fresh)
    assert sh("git -C /repo worktree add --detach -q %s" % fresh).returncode == 0
    ran = {}
    try:
        shutil.copytree(seed, os.path.join(fresh, "_seed"))
        r0 = sh("/venv/bin/python /tmp/kit/run.py %s _seed/demo.py" % fresh, cwd=fresh)
        ran["demo_without_patch_exit"] = r0.returncode
        ap = sh("git -C %s apply _seed/patch.diff" % fresh)
        ran["patch_applies"] = ap.returncode == 0
        r1 = sh("/venv/bin/python /tmp/kit/run.py %s _seed/demo.py" % fresh, cwd=fresh)
        ran["demo_with_patch_exit"] = r1.returncode
        ran["demo_with_patch_tail"] = r1.stdout.strip().splitlines()[-3:]
        env = dict(os.environ, VERIF_BASELINE_REPO=fresh)
        b = sh("cd %s && /venv/bin/python -m pytest -q -p no:cacheprovider --timeout=900 --continue-on-collection-errors --junitxml=/tmp/intake_%s.xml >/dev/null 2>&1; "
               "/venv/bin/python - <<'PY'\n"
               "import json, xml.etree.ElementTree as ET\n"
               "want=set(json.load(open('/root/.vp/BASELINE.json'))['stable_pass'])\n"
               "ok=set()\n"
               "for tc in ET.parse('/tmp/intake_%s.xml').getroot().iter('testcase'):\n"
               "    if not any(c.tag in ('failure','error','skipped') for c in tc): ok.add(tc.get('classname')+'::'+tc.get('name'))\n"
               "print(len(want&ok), len(want))\n"
               "PY" % (fresh, sid, sid))
        ran["baseline_stable_passing"] = b.stdout.strip().splitlines()[-1] if b.stdout.strip() else "?"
        os.remove("/tmp/intake_%s.xml" % sid) if os.path.exists("/tmp/intake_%s.xml" % sid) else None
    finally:
        sh("git -C /repo worktree remove --force %s" % fresh)
        shutil.rmtree(fresh, ignore_errors=True)
    ok = (ran.get("patch_applies") and ran.get("demo_without_patch_exit") == 0 and ran.get("demo_with_patch_exit") not in (0, None)
          and ran.get("baseline_stable_passing", "").split()[:1] == ran.get("baseline_stable_passing", "").split()[1:2])
    print(json.dumps(ran, indent=1))
    print("CONFIRMED" if ok else "NOT CONFIRMED")
    if ok:
        dst = os.path.join(VERIF, "seeded", sid)
        os.makedirs(dst, exist_ok=True)
        for f in ("patch.diff", "demo.py"):
            shutil.copy(os.path.join(seed, f), dst)
        meta["confirmed_by_lead"] = ran
        json.dump(meta, open(os.path.join(dst, "meta.json"), "w"), indent=1)
        sh("git -C /repo worktree remove --force %s" % wt)
        shutil.rmtree(wt, ignore_errors=True)
    return 0 if ok else 1


if __name__ == "__main__":
    sys.exit(main())
