"""C13 worker: replay the pickled cases on the extension build selected by
VERIF_EXT_VARIANT with the thread count of OMP_NUM_THREADS, `reps` times each.

usage: python -m harness.c13_worker cases.pkl out.pkl reps

Writes progress markers `C13CASE <id> <rep>` to stderr so that a sanitizer
report (which aborts the process) can be attributed to a case.
"""
import os
import pickle
import sys

from harness import bootstrap  # noqa: F401  (first import: builds / loads the extension)

import numpy as np

from harness import c13_kernels as K


def record_main(argv):
    """--record seed tier out.pkl : drive the Python layer with the recording proxy."""
    seed, tier, out_path = int(argv[0]), argv[1], argv[2]
    calls, notes = K.record(seed, tier)
    with open(out_path, "wb") as f:
        pickle.dump(dict(calls=calls, notes=notes), f)
    sys.stderr.write("C13DONE\n")


def twopass_main(argv):
    """--twopass seed tier out.pkl : the dense shortest-vector kernel's two-pass protocol on near-tie structures."""
    seed, tier, out_path = int(argv[0]), argv[1], argv[2]
    import phonopy._phonopy as phonoc

    with open(out_path, "ab") as fo:
        for st in K.neartie_structures(seed, tier):
            sys.stderr.write("C13TWOPASS %s\n" % st["label"])
            sys.stderr.flush()
            pickle.dump(K.two_pass_dense(st, phonoc), fo)
            fo.flush()
    sys.stderr.write("C13DONE\n")


def main(argv):
    if argv[0] == "--record":
        return record_main(argv[1:])
    if argv[0] == "--twopass":
        return twopass_main(argv[1:])
    cases_path, out_path, reps = argv[0], argv[1], int(argv[2])
    import phonopy._phonopy as phonoc

    with open(cases_path, "rb") as f:
        cases = pickle.load(f)
    start_after = int(os.environ.get("C13_START_AFTER", "-1"))
    # results are streamed (one pickle object per run) so that a crash / sanitizer abort in one
    # case loses nothing of the earlier ones; the parent restarts after the crashed case
    with open(out_path, "ab") as fo:
        pickle.dump(dict(header=True, variant=bootstrap.VARIANT, use_openmp=int(phonoc.use_openmp()),
                         max_threads=int(phonoc.omp_max_threads())), fo)
        fo.flush()
        for c in cases:
            if c["id"] <= start_after:
                continue
            for rep in range(1, reps + 1):
                sys.stderr.write("C13CASE %d %d\n" % (c["id"], rep))
                sys.stderr.flush()
                r = K.replay(c, phonoc)
                outpos = K.OUTPUTS[c["kernel"]]
                dig = [K.digest(r["out"][p]) for p in outpos]
                if r["ret"] is not None:
                    dig.append(repr(r["ret"]))
                constok = True
                for i, x in enumerate(c["args"]):
                    if isinstance(x, np.ndarray) and i not in outpos:
                        if not np.array_equal(x, r["out"][i], equal_nan=(x.dtype.kind == "f")):
                            constok = False
                flagok = True
                fp = K.USE_OPENMP_FLAG.get(c["kernel"])
                if fp is not None and rep == 1:
                    # the same call with the kernel's own use_openmp flag flipped must give the same bits
                    c2 = dict(c)
                    c2["args"] = list(c["args"])
                    c2["args"][fp] = 0 if c["args"][fp] else 1
                    r2 = K.replay(c2, phonoc)
                    dig2 = [K.digest(r2["out"][p]) for p in outpos]
                    flagok = (dig2 == dig[:len(dig2)]) and r2["guards_ok"] and not r2["err"]
                run = dict(id=c["id"], rep=rep, digest="-".join(dig), guards=r["guards_ok"], constok=constok,
                           err=r["err"], flagok=flagok)
                if rep == 1:
                    run["out"] = {p: np.array(r["out"][p], copy=True) for p in outpos}
                    run["ret"] = r["ret"]
                pickle.dump(run, fo)
                fo.flush()
    sys.stderr.write("C13DONE\n")


if __name__ == "__main__":
    main(sys.argv[1:])
